// Package simrand is the simulator's stand-in for crypto/rand in woven packages: inside a
// simulation the bytes come from a stream derived from the run's seed, so identifiers generated
// by the code under test (and every map keyed by them) replay exactly.
package simrand

import (
	crand "crypto/rand"
	"io"

	sim "github.com/glyphlang/glyph/pkg/zzsimrt"
)

type reader struct{}

func (reader) Read(b []byte) (int, error) { return Read(b) }

// Reader mirrors crypto/rand.Reader.
var Reader io.Reader = reader{}

// Read mirrors crypto/rand.Read.
func Read(b []byte) (int, error) {
	if s := sim.Cur(); s != nil {
		s.RandBytes(b)
		return len(b), nil
	}
	return crand.Read(b)
}
