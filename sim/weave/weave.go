// Package weave is the check-time source-to-source instrumenter of glyphsim. It loads packages
// of /repo's current working tree with full type information, rewrites every synchronisation,
// channel, goroutine, timer and map-range construct into calls of the simulator runtime, inserts
// loop ticks, optional statement/function-entry yields and race probes, and writes the result to
// a scratch directory together with a `go build -overlay` file. Nothing in /repo is modified.
package weave

import (
	"bytes"
	"encoding/json"
	"fmt"
	"go/ast"
	"go/format"
	"go/parser"
	"go/token"
	"go/types"
	"os"
	"path/filepath"
	"sort"
	"strings"

	"golang.org/x/tools/go/ast/astutil"
	"golang.org/x/tools/go/packages"
)

const RTPath = "github.com/glyphlang/glyph/pkg/zzsimrt"
const rtName = "zzsimrt"

// PkgConfig selects the instrumentation level of one package.
type PkgConfig struct {
	Path    string   `json:"path"`     // e.g. ./pkg/cache
	L1      []string `json:"l1"`       // function names (as printed in sites, e.g. "(*Interpreter).EvaluateExpression") that get an entry yield
	L2Files []string `json:"l2_files"` // file base names with a yield before every statement ("*" = all)
	Touch   bool     `json:"touch"`    // race probes
	TouchLocalMaps bool `json:"touch_local_maps"` // also probe index operations on maps held in local variables (they may alias shared records)
	TouchFiles []string `json:"touch_files"` // restrict probes to these files (empty = all)
	Replace map[string]string `json:"replace_imports"` // import path -> replacement path
	CallReplace map[string]string `json:"replace_calls"` // "recvTypeOrPkg.Method" -> zzsimrt function (expr receiver becomes first arg)
}

// Config of one weave.
type Config struct {
	Repo     string      `json:"repo"`
	Out      string      `json:"out"`
	Packages []PkgConfig `json:"packages"`
}

// Stats of a weave, for evidence.
type Stats struct {
	Files    int            `json:"files"`
	Rewrites map[string]int `json:"rewrites"`
}

// Weave instruments the configured packages; returns overlay entries (original path -> woven path).
func Weave(cfg Config) (map[string]string, *Stats, error) {
	st := &Stats{Rewrites: map[string]int{}}
	overlay := map[string]string{}
	var patterns []string
	byPath := map[string]PkgConfig{}
	for _, p := range cfg.Packages {
		patterns = append(patterns, p.Path)
	}
	pc := &packages.Config{
		Mode: packages.NeedName | packages.NeedFiles | packages.NeedCompiledGoFiles | packages.NeedSyntax |
			packages.NeedTypes | packages.NeedTypesInfo | packages.NeedImports | packages.NeedDeps,
		Dir: cfg.Repo,
	}
	pkgs, err := packages.Load(pc, patterns...)
	if err != nil {
		return nil, nil, fmt.Errorf("load: %w", err)
	}
	for _, p := range cfg.Packages {
		if strings.HasPrefix(p.Path, "./") {
			byPath["github.com/glyphlang/glyph/"+strings.TrimPrefix(p.Path, "./")] = p
		} else {
			byPath[p.Path] = p // a dependency, given by import path
		}
	}
	for _, pkg := range pkgs {
		if len(pkg.Errors) > 0 {
			return nil, nil, fmt.Errorf("package %s does not type-check: %v", pkg.PkgPath, pkg.Errors[0])
		}
		pcfg, ok := byPath[pkg.PkgPath]
		if !ok {
			return nil, nil, fmt.Errorf("unexpected package %s", pkg.PkgPath)
		}
		w := &weaver{pkg: pkg, cfg: pcfg, st: st}
		w.prescan()
		for i, f := range pkg.Syntax {
			name := pkg.CompiledGoFiles[i]
			src, err := w.file(f, filepath.Base(name))
			if err != nil {
				return nil, nil, fmt.Errorf("%s: %w", name, err)
			}
			rel, err := filepath.Rel(cfg.Repo, name)
			if err != nil || strings.HasPrefix(rel, "..") {
				rel = filepath.Join("ext", pkg.PkgPath, filepath.Base(name))
			}
			out := filepath.Join(cfg.Out, "woven", rel)
			if err := os.MkdirAll(filepath.Dir(out), 0o755); err != nil {
				return nil, nil, err
			}
			if err := os.WriteFile(out, src, 0o644); err != nil {
				return nil, nil, err
			}
			overlay[name] = out
			st.Files++
		}
	}
	return overlay, st, nil
}

// WriteOverlay writes the overlay JSON file.
func WriteOverlay(path string, m map[string]string) error {
	b, _ := json.MarshalIndent(map[string]any{"Replace": m}, "", " ")
	return os.WriteFile(path, b, 0o644)
}

type weaver struct {
	pkg  *packages.Package
	cfg  PkgConfig
	st   *Stats
	info *types.Info

	mutableFields map[*types.Var]bool // struct fields assigned outside composite literals
	mutableVars   map[*types.Var]bool // package-level / captured vars assigned after declaration
	captured      map[*types.Var]bool // local variables referenced from a function literal declared after them

	// per file
	fname    string
	l2       bool
	touch    bool
	raw      map[ast.Node]bool
	funcs    []string
	counters map[string]int
	needUnsafe bool
	used     bool
	probes   map[ast.Stmt][]ast.Stmt
	fset     *token.FileSet
}

func (w *weaver) count(k string) { w.st.Rewrites[k]++ }

func inList(l []string, x string) bool {
	for _, e := range l {
		if e == x || e == "*" {
			return true
		}
	}
	return false
}

// prescan collects which fields / package variables are ever assigned (outside composite
// literals): only those can be the target of a read/write race.
func (w *weaver) prescan() {
	w.info = w.pkg.TypesInfo
	w.mutableFields = map[*types.Var]bool{}
	w.mutableVars = map[*types.Var]bool{}
	w.captured = map[*types.Var]bool{}
	for _, f := range w.pkg.Syntax {
		ast.Inspect(f, func(n ast.Node) bool {
			lit, ok := n.(*ast.FuncLit)
			if !ok {
				return true
			}
			ast.Inspect(lit.Body, func(m ast.Node) bool {
				if id, ok := m.(*ast.Ident); ok {
					if v, ok := w.info.Uses[id].(*types.Var); ok && !v.IsField() && !isPkgLevel(v) && (v.Pos() < lit.Pos() || v.Pos() > lit.End()) {
						w.captured[v] = true
					}
				}
				return true
			})
			return true
		})
	}
	mark := func(e ast.Expr) {
		for {
			switch x := e.(type) {
			case *ast.ParenExpr:
				e = x.X
				continue
			case *ast.SelectorExpr:
				if sel := w.info.Selections[x]; sel != nil && sel.Kind() == types.FieldVal {
					if v, ok := sel.Obj().(*types.Var); ok {
						w.mutableFields[v] = true
					}
				} else if v, ok := w.info.Uses[x.Sel].(*types.Var); ok && isPkgLevel(v) {
					w.mutableVars[v] = true
				}
			case *ast.Ident:
				if v, ok := w.info.Uses[x].(*types.Var); ok && (isPkgLevel(v) || w.captured[v]) {
					w.mutableVars[v] = true
				}
			case *ast.IndexExpr:
				// a[i] = v where a is an array field: treat as a write of the field
				if _, isMap := typeOf(w.info, x.X).Underlying().(*types.Map); !isMap {
					e = x.X
					continue
				}
			case *ast.StarExpr:
			}
			return
		}
	}
	for _, f := range w.pkg.Syntax {
		ast.Inspect(f, func(n ast.Node) bool {
			switch s := n.(type) {
			case *ast.AssignStmt:
				for _, l := range s.Lhs {
					mark(l)
				}
			case *ast.IncDecStmt:
				mark(s.X)
			case *ast.UnaryExpr:
				if s.Op == token.AND { // address taken: may be written through the pointer
					mark(s.X)
				}
			}
			return true
		})
	}
}

func isPkgLevel(v *types.Var) bool {
	return v.Parent() != nil && v.Pkg() != nil && v.Parent() == v.Pkg().Scope()
}

func typeOf(info *types.Info, e ast.Expr) types.Type {
	t := info.TypeOf(e)
	if t == nil {
		return types.Typ[types.Invalid]
	}
	return t
}

func (w *weaver) site(kind string) string {
	fn := "init"
	if len(w.funcs) > 0 {
		fn = w.funcs[len(w.funcs)-1]
	}
	key := fn + "#" + kind
	w.counters[key]++
	return fmt.Sprintf("%s.%s#%s%d", w.pkg.Name, fn, kind, w.counters[key])
}

func lit(s string) ast.Expr { return &ast.BasicLit{Kind: token.STRING, Value: fmt.Sprintf("%q", s)} }

func (w *weaver) rt(fn string, args ...ast.Expr) *ast.CallExpr {
	w.used = true
	return &ast.CallExpr{Fun: &ast.SelectorExpr{X: ast.NewIdent(rtName), Sel: ast.NewIdent(fn)}, Args: args}
}

func funcName(d *ast.FuncDecl) string {
	if d.Recv == nil || len(d.Recv.List) == 0 {
		return d.Name.Name
	}
	t := d.Recv.List[0].Type
	star := ""
	if s, ok := t.(*ast.StarExpr); ok {
		star = "*"
		t = s.X
	}
	if ix, ok := t.(*ast.IndexExpr); ok {
		t = ix.X
	}
	if ix, ok := t.(*ast.IndexListExpr); ok {
		t = ix.X
	}
	id, _ := t.(*ast.Ident)
	n := "?"
	if id != nil {
		n = id.Name
	}
	if star != "" {
		return "(*" + n + ")." + d.Name.Name
	}
	return n + "." + d.Name.Name
}

func (w *weaver) file(f *ast.File, base string) ([]byte, error) {
	w.fname = base
	w.l2 = inList(w.cfg.L2Files, base)
	w.touch = w.cfg.Touch && (len(w.cfg.TouchFiles) == 0 || inList(w.cfg.TouchFiles, base))
	w.raw = map[ast.Node]bool{}
	w.funcs = nil
	w.counters = map[string]int{}
	w.needUnsafe = false
	w.used = false
	w.fset = w.pkg.Fset
	w.probes = map[ast.Stmt][]ast.Stmt{}
	if w.touch {
		w.computeProbes(f)
	}
	var werr error
	fail := func(n ast.Node, format string, a ...any) {
		if werr == nil {
			werr = fmt.Errorf("%s: %s", w.fset.Position(n.Pos()), fmt.Sprintf(format, a...))
		}
	}
	// the func-name stack is maintained over FuncDecls only (FuncLits inherit the name)
	pre := func(c *astutil.Cursor) bool {
		switch n := c.Node().(type) {
		case *ast.FuncDecl:
			w.funcs = append(w.funcs, funcName(n))
		case *ast.SelectStmt:
			for _, cl := range n.Body.List {
				cc := cl.(*ast.CommClause)
				switch s := cc.Comm.(type) {
				case *ast.SendStmt:
					w.raw[s] = true
				case *ast.ExprStmt:
					w.raw[unparen(s.X)] = true
				case *ast.AssignStmt:
					w.raw[unparen(s.Rhs[0])] = true
				}
			}
		case *ast.LabeledStmt:
			if _, ok := n.Stmt.(*ast.SelectStmt); ok {
				fail(n, "labelled select statement is not supported by the weaver")
			}
		}
		return true
	}
	post := func(c *astutil.Cursor) bool {
		n := c.Node()
		// statement-level insertions (before replacement, on the original node identity)
		if st, ok := n.(ast.Stmt); ok && c.Index() >= 0 {
			switch n.(type) {
			case *ast.CaseClause, *ast.CommClause:
			default:
				if w.l2 && len(w.funcs) > 0 {
					c.InsertBefore(&ast.ExprStmt{X: w.rt("Yield", lit(w.site("s")))})
					w.count("yield-stmt")
				}
				for _, p := range w.probes[st] {
					c.InsertBefore(p)
					w.count("touch")
				}
			}
		}
		switch n := n.(type) {
		case *ast.FuncDecl:
			if n.Body != nil {
				if inList(w.cfg.L1, funcName(n)) && !w.l2 {
					n.Body.List = append([]ast.Stmt{&ast.ExprStmt{X: w.rt("Yield", lit(w.pkg.Name+"."+funcName(n)+"#entry"))}}, n.Body.List...)
					w.count("yield-entry")
				}
			}
			w.funcs = w.funcs[:len(w.funcs)-1]
		case *ast.CallExpr:
			if r := w.rewriteCall(n, fail); r != nil {
				c.Replace(r)
			}
		case *ast.SendStmt:
			if !w.raw[n] {
				c.Replace(&ast.ExprStmt{X: w.rt("Send", lit(w.site("send")), n.Chan, n.Value)})
				w.count("send")
			}
		case *ast.UnaryExpr:
			if n.Op == token.ARROW && !w.raw[n] {
				two := false
				switch p := c.Parent().(type) {
				case *ast.AssignStmt:
					two = len(p.Lhs) == 2 && len(p.Rhs) == 1
				case *ast.ValueSpec:
					two = len(p.Names) == 2 && len(p.Values) == 1
				}
				if two {
					c.Replace(w.rt("Recv2", lit(w.site("recv")), n.X))
				} else {
					c.Replace(w.rt("Recv", lit(w.site("recv")), n.X))
				}
				w.count("recv")
			}
		case *ast.GoStmt:
			r, err := w.rewriteGo(n)
			if err != nil {
				fail(n, "%v", err)
			} else {
				c.Replace(r)
				w.count("go")
			}
		case *ast.SelectStmt:
			r, err := w.rewriteSelect(n)
			if err != nil {
				fail(n, "%v", err)
			} else {
				c.Replace(r)
				w.count("select")
			}
		case *ast.RangeStmt:
			switch typeOf(w.info, n.X).Underlying().(type) {
			case *types.Map:
				n.X = w.rt("RangeMap", lit(w.site("rangemap")), n.X)
				w.count("rangemap")
			case *types.Chan:
				n.X = w.rt("RangeChan", lit(w.site("rangechan")), n.X)
				w.count("rangechan")
			}
			n.Body.List = append([]ast.Stmt{&ast.ExprStmt{X: w.rt("Tick", lit(w.site("loop")))}}, n.Body.List...)
			w.count("tick")
		case *ast.ForStmt:
			n.Body.List = append([]ast.Stmt{&ast.ExprStmt{X: w.rt("Tick", lit(w.site("loop")))}}, n.Body.List...)
			w.count("tick")
		case *ast.AssignStmt:
			// register pointer-like map keys for deterministic iteration order
			if c.Index() >= 0 {
				for _, l := range n.Lhs {
					if ix, ok := l.(*ast.IndexExpr); ok {
						if m, ok := typeOf(w.info, ix.X).Underlying().(*types.Map); ok && pointerLike(m.Key()) {
							if pure(ix.Index) {
								c.InsertBefore(&ast.ExprStmt{X: w.rt("NoteKey", w.clone(ix.Index))})
								w.count("notekey")
							} else {
								fail(n, "map assignment with pointer-like key and impure key expression")
							}
						}
					}
				}
			}
		}
		return true
	}
	astutil.Apply(f, pre, post)
	if werr != nil {
		return nil, werr
	}
	// import replacement (stand-ins)
	for from, to := range w.cfg.Replace {
		for _, im := range f.Imports {
			if strings.Trim(im.Path.Value, `"`) == from {
				if im.Name == nil {
					// keep the identifier the file uses
					im.Name = ast.NewIdent(defaultImportName(from))
				}
				im.Path.Value = fmt.Sprintf("%q", to)
				w.count("import-replaced")
			}
		}
	}
	if w.used {
		astutil.AddNamedImport(w.fset, f, rtName, RTPath)
	}
	if w.needUnsafe {
		astutil.AddImport(w.fset, f, "unsafe")
	}
	for _, path := range []string{"time", "context", "sync", "sync/atomic"} {
		if !astutil.UsesImport(f, path) {
			astutil.DeleteImport(w.fset, f, path)
		}
	}
	f.Comments = nil
	var buf bytes.Buffer
	if err := format.Node(&buf, w.fset, f); err != nil {
		return nil, fmt.Errorf("print: %w", err)
	}
	return buf.Bytes(), nil
}

func defaultImportName(path string) string {
	if i := strings.LastIndexByte(path, '/'); i >= 0 {
		return path[i+1:]
	}
	return path
}

func unparen(e ast.Expr) ast.Expr {
	for {
		p, ok := e.(*ast.ParenExpr)
		if !ok {
			return e
		}
		e = p.X
	}
}

func pointerLike(t types.Type) bool {
	switch t.Underlying().(type) {
	case *types.Pointer, *types.Chan, *types.Interface:
		return true
	}
	return false
}

// pure reports whether evaluating e twice is harmless (identifiers, selectors, derefs).
func pure(e ast.Expr) bool {
	switch x := e.(type) {
	case *ast.Ident:
		return true
	case *ast.SelectorExpr:
		return pure(x.X)
	case *ast.StarExpr:
		return pure(x.X)
	case *ast.ParenExpr:
		return pure(x.X)
	case *ast.BasicLit:
		return true
	}
	return false
}

// clone deep-copies an expression by printing and re-parsing it.
func (w *weaver) clone(e ast.Expr) ast.Expr {
	var buf bytes.Buffer
	format.Node(&buf, w.fset, e)
	x, err := parser.ParseExpr(buf.String())
	if err != nil {
		panic(fmt.Sprintf("weave: cannot re-parse %q: %v", buf.String(), err))
	}
	return x
}

// ---------------------------------------------------------------------------------------------
// calls

// recvPtr returns an expression for a pointer to the receiver of a method selected through
// (possibly embedded) fields, and the named type that declares the method.
func (w *weaver) syncRecv(sel *ast.SelectorExpr) (ast.Expr, string, string, bool) {
	s := w.info.Selections[sel]
	if s == nil || s.Kind() != types.MethodVal {
		return nil, "", "", false
	}
	fn, ok := s.Obj().(*types.Func)
	if !ok || fn.Pkg() == nil {
		return nil, "", "", false
	}
	pkg := fn.Pkg().Path()
	if pkg != "sync" && pkg != "time" {
		return nil, "", "", false
	}
	sig := fn.Type().(*types.Signature)
	rt := sig.Recv().Type()
	if p, ok := rt.(*types.Pointer); ok {
		rt = p.Elem()
	}
	named, ok := rt.(*types.Named)
	if !ok {
		return nil, "", "", false
	}
	// explicit path through embedded fields
	x := sel.X
	t := typeOf(w.info, x)
	idx := s.Index()
	for _, fi := range idx[:len(idx)-1] {
		if p, ok := t.Underlying().(*types.Pointer); ok {
			t = p.Elem()
		}
		st, ok := t.Underlying().(*types.Struct)
		if !ok {
			return nil, "", "", false
		}
		f := st.Field(fi)
		x = &ast.SelectorExpr{X: x, Sel: ast.NewIdent(f.Name())}
		t = f.Type()
	}
	if _, isPtr := t.Underlying().(*types.Pointer); !isPtr {
		x = &ast.UnaryExpr{Op: token.AND, X: x}
	}
	return x, pkg + "." + named.Obj().Name(), fn.Name(), true
}

func (w *weaver) pkgFunc(call *ast.CallExpr) (string, string, bool) {
	sel, ok := call.Fun.(*ast.SelectorExpr)
	if !ok {
		return "", "", false
	}
	id, ok := sel.X.(*ast.Ident)
	if !ok {
		return "", "", false
	}
	pn, ok := w.info.Uses[id].(*types.PkgName)
	if !ok {
		return "", "", false
	}
	return pn.Imported().Path(), sel.Sel.Name, true
}

func (w *weaver) rewriteCall(call *ast.CallExpr, fail func(ast.Node, string, ...any)) ast.Expr {
	// builtin close
	if id, ok := call.Fun.(*ast.Ident); ok && id.Name == "close" && len(call.Args) == 1 {
		if _, isB := w.info.Uses[id].(*types.Builtin); isB {
			w.count("close")
			if ch, ok := typeOf(w.info, call.Args[0]).Underlying().(*types.Chan); ok && ch.Dir() == types.SendOnly {
				return w.rt("CloseS", lit(w.site("close")), call.Args[0])
			}
			return w.rt("Close", lit(w.site("close")), call.Args[0])
		}
	}
	if pkg, name, ok := w.pkgFunc(call); ok {
		switch pkg {
		case "time":
			switch name {
			case "Sleep", "After", "NewTimer", "NewTicker", "AfterFunc":
				w.count("time." + name)
				return w.rt(name, call.Args...)
			case "Tick":
				fail(call, "time.Tick is not modelled")
			}
		case "context":
			switch name {
			case "WithTimeout", "WithDeadline", "WithCancel":
				w.count("context." + name)
				return w.rt(name, call.Args...)
			}
		}
		if to, ok := w.cfg.CallReplace[pkg+"."+name]; ok {
			w.count("call-replaced")
			return w.rt(to, call.Args...)
		}
		return nil
	}
	sel, ok := call.Fun.(*ast.SelectorExpr)
	if !ok {
		return nil
	}
	if len(w.cfg.CallReplace) > 0 {
		if s := w.info.Selections[sel]; s != nil && s.Kind() == types.MethodVal {
			if fn, ok := s.Obj().(*types.Func); ok {
				sig := fn.Type().(*types.Signature)
				rtp := sig.Recv().Type()
				if p, ok := rtp.(*types.Pointer); ok {
					rtp = p.Elem()
				}
				if named, ok := rtp.(*types.Named); ok && named.Obj().Pkg() != nil {
					key := named.Obj().Pkg().Path() + "." + named.Obj().Name() + "." + fn.Name()
					if to, ok := w.cfg.CallReplace[key]; ok {
						w.count("call-replaced")
						return w.rt(to, append([]ast.Expr{sel.X}, call.Args...)...)
					}
				}
			}
		}
	}
	recv, tname, m, ok := w.syncRecv(sel)
	if !ok {
		return nil
	}
	s := func(k string) ast.Expr { return lit(w.site(k)) }
	switch tname {
	case "sync.Mutex":
		switch m {
		case "Lock":
			w.count("mutex")
			return w.rt("Lock", recv, s("lock"))
		case "Unlock":
			return w.rt("Unlock", recv, s("unlock"))
		case "TryLock":
			return w.rt("TryLock", recv, s("trylock"))
		}
	case "sync.RWMutex":
		switch m {
		case "Lock":
			w.count("rwmutex")
			return w.rt("WLock", recv, s("wlock"))
		case "Unlock":
			return w.rt("WUnlock", recv, s("wunlock"))
		case "RLock":
			w.count("rwmutex")
			return w.rt("RLock", recv, s("rlock"))
		case "RUnlock":
			return w.rt("RUnlock", recv, s("runlock"))
		default:
			fail(call, "sync.RWMutex.%s is not modelled", m)
		}
	case "sync.WaitGroup":
		w.count("waitgroup")
		switch m {
		case "Add":
			return w.rt("WGAdd", recv, call.Args[0], s("wgadd"))
		case "Done":
			return w.rt("WGDone", recv, s("wgdone"))
		case "Wait":
			return w.rt("WGWait", recv, s("wgwait"))
		default:
			fail(call, "sync.WaitGroup.%s is not modelled", m)
		}
	case "sync.Once":
		w.count("once")
		if m == "Do" {
			return w.rt("OnceDo", recv, call.Args[0], s("once"))
		}
	case "sync.Pool":
		// Get/Put never block, but what Get returns depends on per-P caches and the collector:
		// the simulation keeps one last-in first-out free list per pool instead, so that a run
		// that hands one object to two owners replays exactly
		switch m {
		case "Get":
			w.count("pool")
			return w.rt("PoolGet", recv)
		case "Put":
			if len(call.Args) == 1 {
				return w.rt("PoolPut", recv, call.Args[0])
			}
		}
		return nil
	case "sync.Map":
		// every operation is a scheduling point (like an atomic); Range iterates in a seeded,
		// replayable order instead of the runtime's
		w.count("syncmap")
		return &ast.CallExpr{Fun: &ast.SelectorExpr{X: w.rt("SyncMap", recv, s("syncmap")), Sel: ast.NewIdent(m)}, Args: call.Args, Ellipsis: call.Ellipsis}
	case "sync.Cond":
		fail(call, "%s is not modelled by the simulator runtime", tname)
	case "time.Timer":
		switch m {
		case "Stop":
			w.count("timer.Stop")
			return w.rt("StopTimer", recv)
		case "Reset":
			return w.rt("ResetTimer", recv, call.Args[0])
		}
	case "time.Ticker":
		switch m {
		case "Stop":
			w.count("ticker.Stop")
			return w.rt("StopTicker", recv)
		case "Reset":
			return w.rt("ResetTicker", recv, call.Args[0])
		}
	}
	return nil
}

func (w *weaver) rewriteGo(g *ast.GoStmt) (ast.Stmt, error) {
	call := g.Call
	site := lit(w.site("go"))
	if fl, ok := call.Fun.(*ast.FuncLit); ok && len(call.Args) == 0 && (fl.Type.Results == nil || len(fl.Type.Results.List) == 0) {
		return &ast.ExprStmt{X: w.rt("Go", site, fl)}, nil
	}
	sig, ok := typeOf(w.info, call.Fun).Underlying().(*types.Signature)
	if !ok {
		return nil, fmt.Errorf("go statement on a non-function")
	}
	if sig.Results().Len() > 0 || sig.Variadic() {
		// wrap: evaluate callee and arguments now, call later
		return nil, fmt.Errorf("go statement with results or variadic callee is not supported")
	}
	switch n := len(call.Args); n {
	case 0:
		return &ast.ExprStmt{X: w.rt("Go", site, call.Fun)}, nil
	case 1, 2, 3:
		// parameter types may differ from argument types (untyped constants, interface conversion):
		// the generic helper infers from f, and the arguments are assignable to its parameters.
		args := append([]ast.Expr{site, call.Fun}, call.Args...)
		return &ast.ExprStmt{X: w.rt(fmt.Sprintf("Go%d", n), args...)}, nil
	}
	return nil, fmt.Errorf("go statement with %d arguments is not supported", len(call.Args))
}

func (w *weaver) rewriteSelect(sel *ast.SelectStmt) (ast.Stmt, error) {
	site := w.site("select")
	var pre []ast.Stmt
	var cases []ast.Expr
	hasDefault := false
	sw := &ast.SwitchStmt{Body: &ast.BlockStmt{}}
	n := 0
	define := func(name string, val ast.Expr) {
		pre = append(pre, &ast.AssignStmt{Lhs: []ast.Expr{ast.NewIdent(name)}, Tok: token.DEFINE, Rhs: []ast.Expr{val}})
	}
	for _, cl := range sel.Body.List {
		cc := cl.(*ast.CommClause)
		if cc.Comm == nil {
			hasDefault = true
			sw.Body.List = append(sw.Body.List, &ast.CaseClause{List: nil, Body: cc.Body})
			continue
		}
		i := n
		n++
		cn := fmt.Sprintf("zzc%d", i)
		body := cc.Body
		switch s := cc.Comm.(type) {
		case *ast.SendStmt:
			define(cn, s.Chan)
			vn := fmt.Sprintf("zzs%d", i)
			// typed temporary so that untyped constants convert to the element type
			pre = append(pre, &ast.AssignStmt{Lhs: []ast.Expr{ast.NewIdent(vn)}, Tok: token.DEFINE, Rhs: []ast.Expr{w.rt("ZeroOfS", ast.NewIdent(cn))}})
			pre = append(pre, &ast.AssignStmt{Lhs: []ast.Expr{ast.NewIdent(vn)}, Tok: token.ASSIGN, Rhs: []ast.Expr{s.Value}})
			cases = append(cases, w.rt("SendCase", ast.NewIdent(cn), ast.NewIdent(vn)))
		case *ast.ExprStmt:
			u := unparen(s.X).(*ast.UnaryExpr)
			define(cn, u.X)
			cases = append(cases, w.rt("RecvCase", ast.NewIdent(cn), ast.NewIdent("nil"), ast.NewIdent("nil")))
		case *ast.AssignStmt:
			u := unparen(s.Rhs[0]).(*ast.UnaryExpr)
			define(cn, u.X)
			vn, okn := fmt.Sprintf("zzv%d", i), fmt.Sprintf("zzok%d", i)
			pre = append(pre, &ast.AssignStmt{Lhs: []ast.Expr{ast.NewIdent(vn)}, Tok: token.DEFINE, Rhs: []ast.Expr{w.rt("ZeroOf", ast.NewIdent(cn))}})
			okArg := ast.Expr(ast.NewIdent("nil"))
			rhs := []ast.Expr{ast.NewIdent(vn)}
			if len(s.Lhs) == 2 {
				pre = append(pre, &ast.AssignStmt{Lhs: []ast.Expr{ast.NewIdent(okn)}, Tok: token.DEFINE, Rhs: []ast.Expr{ast.NewIdent("false")}})
				okArg = &ast.UnaryExpr{Op: token.AND, X: ast.NewIdent(okn)}
				rhs = append(rhs, ast.NewIdent(okn))
			}
			cases = append(cases, w.rt("RecvCase", ast.NewIdent(cn), &ast.UnaryExpr{Op: token.AND, X: ast.NewIdent(vn)}, okArg))
			asg := &ast.AssignStmt{Lhs: s.Lhs, Tok: s.Tok, Rhs: rhs}
			body = append([]ast.Stmt{asg}, body...)
			if s.Tok == token.DEFINE {
				// avoid "declared and not used" for variables the original clause did not use
				for _, l := range s.Lhs {
					if id, ok := l.(*ast.Ident); ok && id.Name != "_" {
						body = append(body[:1:1], append([]ast.Stmt{&ast.AssignStmt{Lhs: []ast.Expr{ast.NewIdent("_")}, Tok: token.ASSIGN, Rhs: []ast.Expr{ast.NewIdent(id.Name)}}}, body[1:]...)...)
					}
				}
			}
		default:
			return nil, fmt.Errorf("unsupported select clause")
		}
		sw.Body.List = append(sw.Body.List, &ast.CaseClause{List: []ast.Expr{&ast.BasicLit{Kind: token.INT, Value: fmt.Sprint(i)}}, Body: body})
	}
	hd := "false"
	if hasDefault {
		hd = "true"
	} else {
		// keeps the switch a terminating statement when every clause terminates (as the select was)
		sw.Body.List = append(sw.Body.List, &ast.CaseClause{List: nil, Body: []ast.Stmt{&ast.ExprStmt{X: &ast.CallExpr{Fun: ast.NewIdent("panic"), Args: []ast.Expr{lit("zzsimrt: select returned no clause")}}}}})
	}
	args := append([]ast.Expr{lit(site), ast.NewIdent(hd)}, cases...)
	sw.Tag = w.rt("Select", args...)
	if len(pre) == 0 {
		return sw, nil
	}
	return &ast.BlockStmt{List: append(pre, sw)}, nil
}

// ---------------------------------------------------------------------------------------------
// race probes

type access struct {
	expr  ast.Expr // field/var expression, or map expression
	deep  bool     // value handed to a JSON encoder: every reachable map is read
	isMap bool
	ptr   bool // expr is itself a pointer identifying the object (container/list)
	write bool
}

// computeProbes walks every statement that sits in a statement list and records the Touch
// statements to insert before it.
func (w *weaver) computeProbes(f *ast.File) {
	var fn []string
	var walk func(n ast.Node) bool
	walk = func(n ast.Node) bool {
		switch x := n.(type) {
		case *ast.FuncDecl:
			fn = append(fn, funcName(x))
			if x.Body != nil {
				ast.Inspect(x.Body, walk)
			}
			fn = fn[:len(fn)-1]
			return false
		case *ast.BlockStmt:
			for _, s := range x.List {
				w.probeStmt(s, fn)
			}
		case *ast.CaseClause:
			for _, s := range x.Body {
				w.probeStmt(s, fn)
			}
		case *ast.CommClause:
			for _, s := range x.Body {
				w.probeStmt(s, fn)
			}
		}
		return true
	}
	ast.Inspect(f, walk)
}

func (w *weaver) probeStmt(s ast.Stmt, fn []string) {
	var acc []access
	add := func(a access) {
		for i, o := range acc {
			if o.isMap == a.isMap && o.ptr == a.ptr && o.deep == a.deep && exprString(w.fset, o.expr) == exprString(w.fset, a.expr) {
				if a.write {
					acc[i].write = true
				}
				return
			}
		}
		acc = append(acc, a)
	}
	c := &collector{w: w, add: add}
	switch x := s.(type) {
	case *ast.AssignStmt:
		// Go evaluates index/pointer operands of the LHS and the RHS in order, then assigns.
		for _, l := range x.Lhs {
			c.lhs(l, x.Tok != token.ASSIGN && x.Tok != token.DEFINE)
		}
		for _, r := range x.Rhs {
			c.expr(r)
		}
	case *ast.IncDecStmt:
		c.lhs(x.X, true)
	case *ast.ExprStmt:
		c.expr(x.X)
	case *ast.ReturnStmt:
		for _, r := range x.Results {
			c.expr(r)
		}
	case *ast.IfStmt:
		if x.Init == nil {
			c.expr(x.Cond)
		}
	case *ast.SwitchStmt:
		if x.Init == nil && x.Tag != nil {
			c.expr(x.Tag)
		}
	case *ast.RangeStmt:
		c.expr(x.X)
		if _, ok := typeOf(w.info, x.X).Underlying().(*types.Map); ok && !c.stopped {
			if w.sharedMapExpr(x.X) {
				add(access{expr: x.X, isMap: true})
			}
		}
	case *ast.ForStmt:
		if x.Init == nil && x.Cond != nil {
			// only the first evaluation is covered; later iterations are covered by probes in the body
			c.expr(x.Cond)
		}
	case *ast.SendStmt:
		c.expr(x.Chan)
		c.expr(x.Value)
	case *ast.DeclStmt:
		if gd, ok := x.Decl.(*ast.GenDecl); ok {
			for _, sp := range gd.Specs {
				if vs, ok := sp.(*ast.ValueSpec); ok {
					for _, v := range vs.Values {
						c.expr(v)
					}
				}
			}
		}
	}
	if len(acc) == 0 {
		return
	}
	fname := "init"
	if len(fn) > 0 {
		fname = fn[len(fn)-1]
	}
	var out []ast.Stmt
	for _, a := range acc {
		label := exprString(w.fset, a.expr)
		site := fmt.Sprintf("%s.%s:%s", w.pkg.Name, fname, w.objLabel(a, label))
		wr := "false"
		if a.write {
			wr = "true"
		}
		switch {
		case a.deep:
			out = append(out, &ast.ExprStmt{X: w.rt("TouchDeep", w.clone(a.expr), lit(site))})
		case a.isMap:
			out = append(out, &ast.ExprStmt{X: w.rt("TouchMap", w.clone(a.expr), ast.NewIdent(wr), lit(site))})
		case a.ptr:
			w.needUnsafe = true
			out = append(out, &ast.ExprStmt{X: w.rt("Touch", &ast.CallExpr{Fun: &ast.SelectorExpr{X: ast.NewIdent("unsafe"), Sel: ast.NewIdent("Pointer")}, Args: []ast.Expr{w.clone(a.expr)}}, ast.NewIdent(wr), lit(site))})
		default:
			w.needUnsafe = true
			out = append(out, &ast.ExprStmt{X: w.rt("Touch", &ast.CallExpr{Fun: &ast.SelectorExpr{X: ast.NewIdent("unsafe"), Sel: ast.NewIdent("Pointer")}, Args: []ast.Expr{&ast.UnaryExpr{Op: token.AND, X: w.clone(a.expr)}}}, ast.NewIdent(wr), lit(site))})
		}
	}
	w.probes[s] = out
}

// objLabel names the accessed object by type and field (never by variable name or line).
func (w *weaver) objLabel(a access, fallback string) string {
	e := unparen(a.expr)
	if sel, ok := e.(*ast.SelectorExpr); ok {
		if s := w.info.Selections[sel]; s != nil && s.Kind() == types.FieldVal {
			t := s.Recv()
			if p, ok := t.(*types.Pointer); ok {
				t = p.Elem()
			}
			name := types.TypeString(t, func(*types.Package) string { return "" })
			return name + "." + sel.Sel.Name
		}
	}
	return fallback
}

func exprString(fset *token.FileSet, e ast.Expr) string {
	var buf bytes.Buffer
	format.Node(&buf, fset, e)
	return buf.String()
}

type collector struct {
	w       *weaver
	add     func(access)
	stopped bool
}

// sharedBase reports whether the object denoted by a selector chain can be reached by another
// goroutine: the chain goes through a pointer or starts at a package-level variable.
func (w *weaver) sharedBase(e ast.Expr) bool {
	switch x := unparen(e).(type) {
	case *ast.Ident:
		if v, ok := w.info.Uses[x].(*types.Var); ok {
			if isPkgLevel(v) || w.captured[v] {
				return true
			}
			_, isPtr := v.Type().Underlying().(*types.Pointer)
			return isPtr
		}
		return false
	case *ast.SelectorExpr:
		if s := w.info.Selections[x]; s != nil && s.Kind() == types.FieldVal {
			if s.Indirect() {
				return true
			}
			if _, isPtr := typeOf(w.info, x.X).Underlying().(*types.Pointer); isPtr {
				return true
			}
			return w.sharedBase(x.X)
		}
		// package-qualified identifier
		if v, ok := w.info.Uses[x.Sel].(*types.Var); ok {
			return isPkgLevel(v)
		}
		return false
	case *ast.StarExpr:
		return true
	}
	return false
}

func (w *weaver) sharedMapExpr(e ast.Expr) bool {
	e = unparen(e)
	if !pure(e) {
		return false
	}
	switch x := e.(type) {
	case *ast.Ident:
		v, ok := w.info.Uses[x].(*types.Var)
		return ok && (isPkgLevel(v) || w.captured[v] || w.cfg.TouchLocalMaps)
	case *ast.SelectorExpr:
		if s := w.info.Selections[x]; s != nil && s.Kind() == types.FieldVal {
			return w.sharedBase(x) || w.cfg.TouchLocalMaps
		}
		if v, ok := w.info.Uses[x.Sel].(*types.Var); ok {
			return isPkgLevel(v)
		}
	}
	return false
}

// lhs records the write target of an assignment (and the reads needed to reach it).
func (c *collector) lhs(e ast.Expr, alsoRead bool) {
	if c.stopped {
		return
	}
	w := c.w
	switch x := unparen(e).(type) {
	case *ast.Ident:
		if v, ok := w.info.Uses[x].(*types.Var); ok && (isPkgLevel(v) || w.captured[v]) && probeableVar(v) {
			c.add(access{expr: x, write: true})
		}
	case *ast.SelectorExpr:
		if s := w.info.Selections[x]; s != nil && s.Kind() == types.FieldVal {
			c.expr(x.X)
			if !c.stopped && pure(x) && w.sharedBase(x) && !isSyncType(typeOf(w.info, x)) {
				c.add(access{expr: x, write: true})
			}
		} else if v, ok := w.info.Uses[x.Sel].(*types.Var); ok && isPkgLevel(v) {
			c.add(access{expr: x, write: true})
		}
	case *ast.IndexExpr:
		c.expr(x.Index)
		if c.stopped {
			return
		}
		if _, ok := typeOf(w.info, x.X).Underlying().(*types.Map); ok {
			c.expr(x.X)
			if !c.stopped && w.sharedMapExpr(x.X) {
				c.add(access{expr: x.X, isMap: true, write: true})
			}
		} else {
			c.expr(x.X)
		}
	case *ast.StarExpr:
		c.expr(x.X)
	}
	_ = alsoRead
}

// probeableVar: variables whose address may be taken for a probe without changing semantics.
func probeableVar(v *types.Var) bool {
	if isSyncType(v.Type()) {
		return false
	}
	switch v.Type().Underlying().(type) {
	case *types.Signature, *types.Chan:
		return false
	}
	return true
}

func isSyncType(t types.Type) bool {
	if p, ok := t.(*types.Pointer); ok {
		t = p.Elem()
	}
	if n, ok := t.(*types.Named); ok && n.Obj().Pkg() != nil {
		switch n.Obj().Pkg().Path() {
		case "sync", "sync/atomic":
			return true
		}
	}
	return false
}

// jsonEncodeCall recognises json.Marshal(v), json.MarshalIndent(v, ..) and (*json.Encoder).Encode(v).
func (w *weaver) jsonEncodeCall(call *ast.CallExpr) bool {
	if pkg, name, ok := w.pkgFunc(call); ok {
		return pkg == "encoding/json" && (name == "Marshal" || name == "MarshalIndent")
	}
	if sel, ok := call.Fun.(*ast.SelectorExpr); ok {
		if s := w.info.Selections[sel]; s != nil && s.Kind() == types.MethodVal {
			if fn, ok := s.Obj().(*types.Func); ok && fn.Pkg() != nil && fn.Pkg().Path() == "encoding/json" && fn.Name() == "Encode" {
				return true
			}
		}
	}
	return false
}

var listWrites = map[string]bool{"PushFront": true, "PushBack": true, "Remove": true, "MoveToFront": true, "MoveToBack": true, "MoveBefore": true, "MoveAfter": true, "InsertBefore": true, "InsertAfter": true, "Init": true, "PushBackList": true, "PushFrontList": true}
var listReads = map[string]bool{"Len": true, "Front": true, "Back": true}

// expr records the reads performed by evaluating e, in evaluation order, stopping at the first
// operation that may synchronise (any non-builtin call, channel receive) or is conditional.
func (c *collector) expr(e ast.Expr) {
	if c.stopped || e == nil {
		return
	}
	w := c.w
	switch x := e.(type) {
	case *ast.ParenExpr:
		c.expr(x.X)
	case *ast.Ident:
		if v, ok := w.info.Uses[x].(*types.Var); ok && (isPkgLevel(v) || w.captured[v]) && w.mutableVars[v] && probeableVar(v) {
			c.add(access{expr: x})
		}
	case *ast.SelectorExpr:
		if s := w.info.Selections[x]; s != nil {
			if s.Kind() == types.FieldVal {
				c.expr(x.X)
				if v, ok := s.Obj().(*types.Var); ok && !c.stopped && w.mutableFields[v] && pure(x) && w.sharedBase(x) && !isSyncType(v.Type()) {
					c.add(access{expr: x})
				}
				return
			}
			// method value
			c.expr(x.X)
			return
		}
		if v, ok := w.info.Uses[x.Sel].(*types.Var); ok && isPkgLevel(v) && w.mutableVars[v] {
			c.add(access{expr: x})
		}
	case *ast.IndexExpr:
		c.expr(x.X)
		c.expr(x.Index)
		if c.stopped {
			return
		}
		if _, ok := typeOf(w.info, x.X).Underlying().(*types.Map); ok && w.sharedMapExpr(x.X) {
			c.add(access{expr: x.X, isMap: true})
		}
	case *ast.SliceExpr:
		c.expr(x.X)
		c.expr(x.Low)
		c.expr(x.High)
		c.expr(x.Max)
	case *ast.StarExpr:
		c.expr(x.X)
	case *ast.UnaryExpr:
		if x.Op == token.ARROW {
			c.stopped = true
			return
		}
		if x.Op == token.AND {
			// taking an address is not an access of the object itself; still evaluate operands
			switch y := unparen(x.X).(type) {
			case *ast.SelectorExpr:
				c.expr(y.X)
			case *ast.IndexExpr:
				c.expr(y.X)
				c.expr(y.Index)
			case *ast.CompositeLit:
				c.expr(y)
			}
			return
		}
		c.expr(x.X)
	case *ast.BinaryExpr:
		c.expr(x.X)
		if x.Op == token.LAND || x.Op == token.LOR {
			// the right operand is conditional: do not hoist anything from it, and nothing after it
			c.stopped = true
			return
		}
		c.expr(x.Y)
	case *ast.KeyValueExpr:
		c.expr(x.Value)
	case *ast.CompositeLit:
		for _, el := range x.Elts {
			c.expr(el)
		}
	case *ast.TypeAssertExpr:
		c.expr(x.X)
	case *ast.FuncLit:
		// body runs later
	case *ast.CallExpr:
		// conversions and builtins do not synchronise
		if tv, ok := w.info.Types[x.Fun]; ok && tv.IsType() {
			for _, a := range x.Args {
				c.expr(a)
			}
			return
		}
		if id, ok := unparen(x.Fun).(*ast.Ident); ok {
			if _, isB := w.info.Uses[id].(*types.Builtin); isB {
				switch id.Name {
				case "len":
					if _, ok := typeOf(w.info, x.Args[0]).Underlying().(*types.Map); ok {
						c.expr(x.Args[0])
						if !c.stopped && w.sharedMapExpr(x.Args[0]) {
							c.add(access{expr: x.Args[0], isMap: true})
						}
						return
					}
				case "delete":
					c.expr(x.Args[0])
					c.expr(x.Args[1])
					if !c.stopped && w.sharedMapExpr(x.Args[0]) {
						c.add(access{expr: x.Args[0], isMap: true, write: true})
					}
					return
				case "clear":
					if _, ok := typeOf(w.info, x.Args[0]).Underlying().(*types.Map); ok {
						c.expr(x.Args[0])
						if !c.stopped && w.sharedMapExpr(x.Args[0]) {
							c.add(access{expr: x.Args[0], isMap: true, write: true})
						}
						return
					}
				case "panic", "recover", "print", "println", "close":
					c.stopped = true
					return
				}
				for _, a := range x.Args {
					c.expr(a)
				}
				return
			}
		}
		// values handed to encoding/json: the encoder reads every reachable map
		if w.jsonEncodeCall(x) && len(x.Args) >= 1 && pure(x.Args[0]) {
			c.add(access{expr: x.Args[0], deep: true})
		}
		// container/list methods on a shared field: model as access to the list object
		if sel, ok := x.Fun.(*ast.SelectorExpr); ok {
			if s := w.info.Selections[sel]; s != nil && s.Kind() == types.MethodVal {
				if fn, ok := s.Obj().(*types.Func); ok && fn.Pkg() != nil && fn.Pkg().Path() == "container/list" {
					rt := typeOf(w.info, sel.X)
					if p, ok := rt.(*types.Pointer); ok {
						if n, ok := p.Elem().(*types.Named); ok && n.Obj().Name() == "List" && pure(sel.X) && w.sharedBase(sel.X) {
							c.expr(sel.X)
							if listWrites[fn.Name()] {
								c.add(access{expr: sel.X, ptr: true, write: true})
							} else if listReads[fn.Name()] {
								c.add(access{expr: sel.X, ptr: true})
							}
						}
					}
				}
			}
		}
		c.stopped = true
	}
}

// SortedKeys is a small helper for deterministic output.
func SortedKeys(m map[string]int) []string {
	var ks []string
	for k := range m {
		ks = append(ks, k)
	}
	sort.Strings(ks)
	return ks
}
