// Package fsnotify is the simulator's stand-in for github.com/fsnotify/fsnotify in woven
// packages: watchers receive exactly the events the harness emits (single, duplicated, delayed,
// spurious), delivered through the simulator's channels so that delivery order is a seeded choice.
package fsnotify

import (
	"errors"
	"path/filepath"
	"strings"

	sim "github.com/glyphlang/glyph/pkg/zzsimrt"
)

// Op describes a set of file operations.
type Op uint32

const (
	Create Op = 1 << iota
	Write
	Remove
	Rename
	Chmod
)

func (o Op) Has(h Op) bool { return o&h != 0 }

func (o Op) String() string {
	var parts []string
	for _, x := range []struct {
		op Op
		n  string
	}{{Create, "CREATE"}, {Write, "WRITE"}, {Remove, "REMOVE"}, {Rename, "RENAME"}, {Chmod, "CHMOD"}} {
		if o&x.op != 0 {
			parts = append(parts, x.n)
		}
	}
	return strings.Join(parts, "|")
}

// Event is a file system notification.
type Event struct {
	Name string
	Op   Op
}

func (e Event) Has(op Op) bool { return e.Op.Has(op) }
func (e Event) String() string { return e.Op.String() + " " + e.Name }

// Watcher mirrors the fsnotify.Watcher surface GlyphLang uses.
type Watcher struct {
	Events chan Event
	Errors chan error
	dirs   map[string]bool
	closed bool
}

var (
	owner    *sim.Sim
	watchers []*Watcher
)

func registry() *[]*Watcher {
	if cur := sim.Cur(); cur != owner {
		owner = cur
		watchers = nil
	}
	return &watchers
}

// NewWatcher creates a watcher known to the simulator.
func NewWatcher() (*Watcher, error) {
	w := &Watcher{Events: make(chan Event), Errors: make(chan error), dirs: map[string]bool{}}
	r := registry()
	*r = append(*r, w)
	return w, nil
}

// real resolves symbolic links the way the kernel does when a watch is placed or a file is
// written: a watch is on the directory a path leads to, whatever name was used to reach it.
func real(path string) string {
	if r, err := filepath.EvalSymlinks(path); err == nil {
		return filepath.Clean(r)
	}
	return filepath.Clean(path)
}

func (w *Watcher) Add(name string) error {
	if w.closed {
		return errors.New("fsnotify: watcher already closed")
	}
	w.dirs[filepath.Clean(name)] = true
	return nil
}

// watched reports the name under which w watches the directory of path (or path itself): events
// carry the name the watch was added with, joined with the file's base name, as inotify's do.
func (w *Watcher) watched(path string) (string, bool) {
	dir, file := real(filepath.Dir(path)), real(path)
	for given := range w.dirs {
		switch real(given) {
		case dir:
			return filepath.Join(given, filepath.Base(path)), true
		case file:
			return given, true
		}
	}
	return "", false
}

func (w *Watcher) Remove(name string) error {
	delete(w.dirs, filepath.Clean(name))
	return nil
}

func (w *Watcher) WatchList() []string {
	var l []string
	for d := range w.dirs {
		l = append(l, d)
	}
	return l
}

func (w *Watcher) Close() error {
	if w.closed {
		return nil
	}
	w.closed = true
	sim.Close("simfsn.Close", w.Events)
	sim.Close("simfsn.Close", w.Errors)
	return nil
}

// ErrEventOverflow is what the real library reports on Errors when the kernel's event queue
// overflowed; watching goes on afterwards.
var ErrEventOverflow = errors.New("fsnotify: queue or buffer overflow")

// EmitError delivers err on the Errors channel of every open watcher that watches the directory
// of path (harness side): a watcher error is something to report, the watch stays in place.
func EmitError(path string, err error) int {
	n := 0
	for _, w := range *registry() {
		if _, ok := w.watched(path); w.closed || !ok {
			continue
		}
		sim.Send("simfsn.EmitError", w.Errors, err)
		n++
	}
	return n
}

// Watchers returns how many open watchers watch the directory of path (harness side).
func Watchers(path string) int {
	n := 0
	for _, w := range *registry() {
		if _, ok := w.watched(path); !w.closed && ok {
			n++
		}
	}
	return n
}

// Emit delivers an event for path to every open watcher that watches its directory (or the file
// itself). Like the real library's unbuffered channel, delivery waits for the consumer.
func Emit(path string, op Op) int {
	n := 0
	for _, w := range *registry() {
		name, ok := w.watched(path)
		if w.closed || !ok {
			continue
		}
		sim.Send("simfsn.Emit", w.Events, Event{Name: name, Op: op})
		n++
	}
	return n
}
