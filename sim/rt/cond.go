package zzsimrt

import "time"

// Cond is a wait queue owned by simulator stand-ins (simulated network, watcher, port table):
// a task parks on it until Signal is called or an optional deadline passes on the simulated clock.
type Cond struct{ name string }

// NewCond creates a wait queue; name appears in blocked-site signatures.
func NewCond(name string) *Cond { return &Cond{name: name} }

// Wait parks the calling task until Signal or until the deadline (zero = none). Reports whether
// it returned because the deadline passed. Outside a simulation it returns immediately.
func (c *Cond) Wait(dl time.Time, site string) (timedOut bool) {
	s := active
	if s == nil || s.aborting {
		return false
	}
	t := s.cur
	if !dl.IsZero() {
		if !dl.After(time.Now()) {
			s.yield(site)
			return true
		}
		t.until = dl
		s.deadl[t] = &deadline{when: dl}
	} else {
		t.until = time.Time{}
	}
	t.cond = c
	t.condSignalled = false
	s.park(t, bCond, 0, c.name+":"+site)
	t.cond = nil
	if !dl.IsZero() {
		delete(s.deadl, t)
	}
	return !t.condSignalled
}

// Signal wakes every task waiting on the queue.
func (c *Cond) Signal() {
	s := active
	if s == nil || s.aborting {
		return
	}
	for _, o := range s.tasks {
		if o.state == tBlocked && o.bkind == bCond && o.cond == c {
			o.condSignalled = true
			o.state = tRunnable
		}
	}
	s.swept = false
}
