package zzsimrt

import (
	"iter"
	"reflect"
	"unsafe"
)

// Case is one communication clause of a (rewritten) select, or a single channel operation.
type Case struct {
	send    bool
	id      uintptr // channel identity (address of the runtime channel object); 0 = nil channel
	capc    int
	trySend func() bool             // real non-blocking send (panics on a closed channel, as Go does)
	tryRecv func() (any, bool, bool) // real non-blocking receive: value, ok, completed
	val     any                     // value to send (boxed)
	store   func(v any, ok bool)    // store a received value into the user's destination
	rch     reflect.Value           // for the fallback outside a simulation
	rval    reflect.Value
}

func chanID[T any](c chan T) uintptr { return *(*uintptr)(unsafe.Pointer(&c)) }

// SendCase builds the clause `case c <- v`.
func SendCase[T any](c chan<- T, v T) Case {
	bc := *(*chan T)(unsafe.Pointer(&c))
	cs := Case{send: true, id: chanID(bc), val: v}
	if c != nil {
		cs.capc = cap(c)
	}
	cs.trySend = func() bool {
		select {
		case c <- v:
			return true
		default:
			return false
		}
	}
	if active == nil {
		cs.rch, cs.rval = reflect.ValueOf(c), reflect.ValueOf(&v).Elem()
	}
	return cs
}

// RecvCase builds the clause `case *dst, *okp = <-c` (dst and okp may be nil).
func RecvCase[T any](c <-chan T, dst *T, okp *bool) Case {
	bc := *(*chan T)(unsafe.Pointer(&c))
	cs := Case{id: chanID(bc)}
	if c != nil {
		cs.capc = cap(c)
	}
	cs.tryRecv = func() (any, bool, bool) {
		select {
		case v, ok := <-c:
			return v, ok, true
		default:
			return nil, false, false
		}
	}
	cs.store = func(v any, ok bool) {
		if dst != nil {
			if v == nil {
				var z T
				*dst = z
			} else {
				*dst = v.(T)
			}
		}
		if okp != nil {
			*okp = ok
		}
	}
	if active == nil {
		cs.rch = reflect.ValueOf(c)
	}
	return cs
}

// ZeroOf returns the zero value of a channel's element type (lets the weaver declare temporaries
// without printing type names).
func ZeroOf[T any](c <-chan T) T { var z T; return z }

// ZeroOfS is ZeroOf for send-only channels.
func ZeroOfS[T any](c chan<- T) T { var z T; return z }

// selWaiter is a task parked in a select (or single op), visible to counterpart operations on
// unbuffered channels.
type selWaiter struct {
	t     *task
	cases []Case
	fired int // index completed by a counterpart, -1 if none
}

func (s *Sim) registerWaiter(w *selWaiter) {
	seen := map[uintptr]bool{}
	for _, c := range w.cases {
		if c.id != 0 && !seen[c.id] {
			seen[c.id] = true
			s.chanW[c.id] = append(s.chanW[c.id], w.t)
		}
	}
}

func (s *Sim) unregisterWaiter(w *selWaiter) {
	seen := map[uintptr]bool{}
	for _, c := range w.cases {
		if c.id == 0 || seen[c.id] {
			continue
		}
		seen[c.id] = true
		l := s.chanW[c.id]
		for i, t := range l {
			if t == w.t {
				l = append(l[:i], l[i+1:]...)
				break
			}
		}
		if len(l) == 0 {
			delete(s.chanW, c.id)
		} else {
			s.chanW[c.id] = l
		}
	}
}

// chanProgress wakes the tasks parked on channel id so they re-poll.
func (s *Sim) chanProgress(id uintptr) {
	s.swept = false
	for _, t := range s.chanW[id] {
		if t.state == tBlocked && t.bkind == bChan {
			t.state = tRunnable
		}
	}
}

// counterpart finds a parked waiter with an un-fired clause of the opposite direction on an
// unbuffered channel; FIFO among waiters.
func (s *Sim) counterpart(id uintptr, wantSend bool) (*selWaiter, int) {
	for _, t := range s.chanW[id] {
		w := t.sel
		if w == nil || w.fired >= 0 || t == s.cur {
			continue
		}
		for i, c := range w.cases {
			if c.id == id && c.send == wantSend {
				return w, i
			}
		}
	}
	return nil, -1
}

// Select executes a rewritten select statement; returns the index of the clause that
// proceeded, or -1 for the default clause.
func Select(site string, hasDefault bool, cases ...Case) int {
	s := active
	if s == nil {
		return selectFallback(hasDefault, cases)
	}
	if s.aborting {
		if hasDefault {
			return -1
		}
		// unwinding: nothing can proceed any more
		abortExit()
	}
	t := s.cur
	s.yield(site)
	n := len(cases)
	for {
		start := 0
		if n > 1 {
			start = s.Choose(SSched, n)
		}
		for j := 0; j < n; j++ {
			i := (start + j) % n
			c := &cases[i]
			if c.id == 0 {
				continue // nil channel: never ready
			}
			if c.send {
				if c.capc == 0 {
					if w, wi := s.counterpart(c.id, false); w != nil {
						w.cases[wi].store(c.val, true)
						s.completeWaiter(w, wi)
						s.logf("%s send-rendezvous @%s -> %s", t.name, site, w.t.name)
						return i
					}
				}
				if c.trySend() { // panics if the channel is closed
					s.chanProgress(c.id)
					return i
				}
			} else {
				if c.capc == 0 {
					if w, wi := s.counterpart(c.id, true); w != nil {
						c.store(w.cases[wi].val, true)
						s.completeWaiter(w, wi)
						s.logf("%s recv-rendezvous @%s <- %s", t.name, site, w.t.name)
						return i
					}
				}
				if v, ok, done := c.tryRecv(); done {
					c.store(v, ok)
					s.chanProgress(c.id)
					return i
				}
			}
		}
		if hasDefault {
			return -1
		}
		w := &selWaiter{t: t, cases: cases, fired: -1}
		t.sel = w
		s.registerWaiter(w)
		s.park(t, bChan, 0, site)
		t.sel = nil
		if w.fired >= 0 {
			return w.fired // completed by a counterpart (already unregistered)
		}
		s.unregisterWaiter(w)
	}
}

func (s *Sim) completeWaiter(w *selWaiter, idx int) {
	s.swept = false
	w.fired = idx
	s.unregisterWaiter(w)
	if w.t.state == tBlocked {
		w.t.state = tRunnable
	}
}

func abortExit() {
	// leave the goroutine; deferred calls run against a runtime that no-ops
	goexit()
}

// Send replaces `c <- v`.
func Send[T any](site string, c chan<- T, v T) {
	if active == nil {
		c <- v
		return
	}
	if active.aborting {
		return
	}
	Select(site, false, SendCase(c, v))
}

// Recv replaces `<-c`.
func Recv[T any](site string, c <-chan T) T {
	if active == nil {
		return <-c
	}
	var v T
	if active.aborting {
		return v
	}
	Select(site, false, RecvCase(c, &v, nil))
	return v
}

// Recv2 replaces `v, ok := <-c`.
func Recv2[T any](site string, c <-chan T) (T, bool) {
	if active == nil {
		v, ok := <-c
		return v, ok
	}
	var v T
	var ok bool
	if active.aborting {
		return v, false
	}
	Select(site, false, RecvCase(c, &v, &ok))
	return v, ok
}

// Close replaces close(c).
func Close[T any](site string, c chan T) {
	s := active
	if s == nil || s.aborting {
		if s == nil {
			close(c)
		}
		return
	}
	s.yield(site)
	close(c)
	s.chanProgress(chanID(c))
}

// CloseS is Close for a send-only channel value.
func CloseS[T any](site string, c chan<- T) {
	s := active
	if s == nil || s.aborting {
		if s == nil {
			close(c)
		}
		return
	}
	s.yield(site)
	close(c)
	bc := *(*chan T)(unsafe.Pointer(&c))
	s.chanProgress(chanID(bc))
}

// RangeChan replaces `for v := range c`.
func RangeChan[T any](site string, c <-chan T) iter.Seq[T] {
	return func(yield func(T) bool) {
		for {
			v, ok := Recv2(site, c)
			if !ok {
				return
			}
			if !yield(v) {
				return
			}
		}
	}
}

func selectFallback(hasDefault bool, cases []Case) int {
	rc := make([]reflect.SelectCase, 0, len(cases)+1)
	for _, c := range cases {
		if c.send {
			rc = append(rc, reflect.SelectCase{Dir: reflect.SelectSend, Chan: c.rch, Send: c.rval})
		} else {
			rc = append(rc, reflect.SelectCase{Dir: reflect.SelectRecv, Chan: c.rch})
		}
	}
	if hasDefault {
		rc = append(rc, reflect.SelectCase{Dir: reflect.SelectDefault})
	}
	i, v, ok := reflect.Select(rc)
	if hasDefault && i == len(cases) {
		return -1
	}
	if !cases[i].send {
		if v.IsValid() && ok {
			cases[i].store(v.Interface(), ok)
		} else {
			cases[i].store(nil, ok)
		}
	}
	return i
}
