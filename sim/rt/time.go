package zzsimrt

import (
	"context"
	"fmt"
	"time"
)

// deadline is an instant the idle procedure must not jump over.
type deadline struct {
	when   time.Time
	period time.Duration
}

func (s *Sim) nextDeadline(now time.Time) (time.Time, bool) {
	var best time.Time
	ok := false
	consider := func(w time.Time) {
		if !ok || w.Before(best) {
			best, ok = w, true
		}
	}
	for _, d := range s.deadl {
		w := d.when
		if d.period > 0 && !w.After(now) {
			k := now.Sub(w)/d.period + 1
			w = w.Add(k * d.period)
		}
		if d.period == 0 && w.Before(now) {
			continue
		}
		consider(w)
	}
	for _, t := range s.tasks {
		if t.state == tBlocked && t.bkind == bUntil && !t.until.Before(now) {
			consider(t.until)
		}
	}
	return best, ok
}

// Sleep replaces time.Sleep in woven code.
func Sleep(d time.Duration) {
	s := active
	if s == nil {
		time.Sleep(d)
		return
	}
	if s.aborting {
		return
	}
	s.sleepUntil(time.Now().Add(d), "time.Sleep")
}

// After replaces time.After.
func After(d time.Duration) <-chan time.Time {
	c := time.After(d)
	if s := active; s != nil && !s.aborting {
		s.deadl[c] = &deadline{when: time.Now().Add(d)}
	}
	return c
}

// NewTimer replaces time.NewTimer.
func NewTimer(d time.Duration) *time.Timer {
	t := time.NewTimer(d)
	if s := active; s != nil && !s.aborting {
		s.deadl[t] = &deadline{when: time.Now().Add(d)}
		s.stopFns = append(s.stopFns, func() { t.Stop() })
	}
	return t
}

// NewTicker replaces time.NewTicker.
func NewTicker(d time.Duration) *time.Ticker {
	t := time.NewTicker(d)
	if s := active; s != nil && !s.aborting {
		s.deadl[t] = &deadline{when: time.Now().Add(d), period: d}
		s.stopFns = append(s.stopFns, func() { t.Stop() })
	}
	return t
}

// StopTimer replaces (*time.Timer).Stop.
func StopTimer(t *time.Timer) bool {
	if s := active; s != nil {
		delete(s.deadl, t)
	}
	return t.Stop()
}

// ResetTimer replaces (*time.Timer).Reset.
func ResetTimer(t *time.Timer, d time.Duration) bool {
	if s := active; s != nil && !s.aborting {
		s.deadl[t] = &deadline{when: time.Now().Add(d)}
	}
	return t.Reset(d)
}

// StopTicker replaces (*time.Ticker).Stop.
func StopTicker(t *time.Ticker) {
	if s := active; s != nil {
		delete(s.deadl, t)
	}
	t.Stop()
}

// ResetTicker replaces (*time.Ticker).Reset.
func ResetTicker(t *time.Ticker, d time.Duration) {
	if s := active; s != nil && !s.aborting {
		s.deadl[t] = &deadline{when: time.Now().Add(d), period: d}
	}
	t.Reset(d)
}

// AfterFunc replaces time.AfterFunc: the callback becomes a task whose id is fixed now.
func AfterFunc(d time.Duration, f func()) *time.Timer {
	s := active
	if s == nil || s.aborting {
		return time.AfterFunc(d, f)
	}
	t := s.newTask("afterfunc#" + fmt.Sprint(len(s.tasks)))
	t.state = tTimerPending
	tm := time.AfterFunc(d, func() {
		if s.aborting || active != s {
			return
		}
		defer s.taskExit(t)
		t.fired.Store(true)
		<-t.wake
		if s.aborting {
			return
		}
		t.state = tRunning
		f()
	})
	s.deadl[tm] = &deadline{when: time.Now().Add(d)}
	s.stopFns = append(s.stopFns, func() { tm.Stop() })
	return tm
}

// WithTimeout replaces context.WithTimeout.
func WithTimeout(parent context.Context, d time.Duration) (context.Context, context.CancelFunc) {
	ctx, cancel := context.WithTimeout(parent, d)
	s := active
	if s == nil || s.aborting {
		return ctx, cancel
	}
	key := new(int)
	s.deadl[key] = &deadline{when: time.Now().Add(d)}
	return ctx, func() {
		if active == s {
			delete(s.deadl, key)
		}
		cancel()
		wakeChanWaiters()
	}
}

// WithDeadline replaces context.WithDeadline.
func WithDeadline(parent context.Context, when time.Time) (context.Context, context.CancelFunc) {
	ctx, cancel := context.WithDeadline(parent, when)
	s := active
	if s == nil || s.aborting {
		return ctx, cancel
	}
	key := new(int)
	s.deadl[key] = &deadline{when: when}
	return ctx, func() {
		if active == s {
			delete(s.deadl, key)
		}
		cancel()
		wakeChanWaiters()
	}
}

// WithCancel replaces context.WithCancel.
func WithCancel(parent context.Context) (context.Context, context.CancelFunc) {
	ctx, cancel := context.WithCancel(parent)
	return ctx, func() {
		cancel()
		wakeChanWaiters()
	}
}

// wakeChanWaiters makes every channel-blocked task re-poll (a context was cancelled: its Done
// channel is closed by un-woven code, which the runtime cannot attribute to a channel id).
func wakeChanWaiters() {
	s := active
	if s == nil || s.aborting {
		return
	}
	for _, o := range s.tasks {
		if o.state == tBlocked && o.bkind == bChan {
			o.state = tRunnable
		}
	}
}

// WakeChanWaiters is the exported form for simulator stand-ins (sim net, sim fsnotify).
func WakeChanWaiters() { wakeChanWaiters() }

// RegisterDeadline lets a stand-in tell the idle procedure about an instant of interest.
func (s *Sim) RegisterDeadline(key any, when time.Time) { s.deadl[key] = &deadline{when: when} }

// UnregisterDeadline removes it.
func (s *Sim) UnregisterDeadline(key any) { delete(s.deadl, key) }
