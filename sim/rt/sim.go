// Package zzsimrt is the glyphsim runtime: a cooperative, seeded scheduler for woven GlyphLang
// code that runs inside one testing/synctest bubble. Exactly one task holds the baton; all
// scheduling, clock and fault choices come from three seeded, recorded choice tapes.
//
// The package is injected into the repository build with `go test -overlay` as
// github.com/glyphlang/glyph/pkg/zzsimrt; it is never committed to /repo.
//
// Outside a simulation (no Run active) every entry point degrades to the plain operation, so a
// package's own unit tests still pass against the woven build.
package zzsimrt

import (
	"fmt"
	"hash/fnv"
	"math/rand/v2"
	"runtime"
	"sort"
	"strings"
	"sync"
	"sync/atomic"
	"testing"
	"testing/synctest"
	"time"
	"unsafe"
)

// Stream identifies one of the three independent choice tapes.
type Stream int

const (
	SWork  Stream = iota // workload generation
	SSched               // scheduling decisions
	SFault               // fault injection
	nStreams
)

var streamNames = [nStreams]string{"workload", "schedule", "fault"}

// Strategy of the scheduler for one run.
type Strategy int

const (
	StratRandom   Strategy = iota // at every yield: switch with probability SwitchPermille/1000
	StratPCT                      // priority based with D change points
	StratRunBlock                 // never preempt; seeded choice only when the running task blocks
	StratRR                       // round robin with seeded quantum
)

func (s Strategy) String() string {
	return [...]string{"random", "pct", "run-to-block", "round-robin"}[s]
}

// Config of one simulated run.
type Config struct {
	Seed           uint64
	Strategy       Strategy
	SwitchPermille int           // StratRandom: preemption probability per yield, in 1/1000
	PCTDepth       int           // StratPCT: number of priority change points
	PCTSteps       int           // StratPCT: estimated run length used to place change points
	Quantum        int           // StratRR
	MaxSteps       uint64        // hard cap on scheduler steps (0 = 2e6)
	MaxSimTime     time.Duration // hard cap on simulated time (0 = 100h)
	TickLimit      int           // loop ticks inside one scheduler step before a hang is reported
	ClockJumpPermille int        // idle: probability of jumping past several deadlines
	Replay         *Tapes        // when set, choices are read from these tapes instead of the PRNGs
	Strict         bool          // replay must match recorded arities exactly
	LogTail        int           // events kept for the replay file
}

// Tapes are the recorded choices of one run.
type Tapes struct {
	Work    []uint32 `json:"workload"`
	Sched   []uint32 `json:"schedule"`
	Fault   []uint32 `json:"fault"`
	AWork   []uint32 `json:"arity_workload,omitempty"`
	ASched  []uint32 `json:"arity_schedule,omitempty"`
	AFault  []uint32 `json:"arity_fault,omitempty"`
}

func (t *Tapes) get(st Stream) ([]uint32, []uint32) {
	switch st {
	case SWork:
		return t.Work, t.AWork
	case SSched:
		return t.Sched, t.ASched
	default:
		return t.Fault, t.AFault
	}
}

// Violation is a property violation found in a run.
type Violation struct {
	Class string `json:"class"` // race | deadlock | panic | hang | oracle | invariant
	Site  string `json:"site"`  // line-number free signature site
	Msg   string `json:"msg"`
}

func (v *Violation) Signature() string { return v.Class + "|" + v.Site }

// Result of one run.
type Result struct {
	Violation   *Violation     `json:"violation,omitempty"`
	Infra       string         `json:"infra,omitempty"` // infrastructure trouble (external block, divergence)
	Steps       uint64         `json:"steps"`
	Switches    uint64         `json:"switches"`
	Preemptions uint64         `json:"preemptions"`
	SimTime     time.Duration  `json:"simtime_ns"`
	Tasks       int            `json:"tasks"`
	MaxRunnable int            `json:"max_runnable"`
	Fingerprint uint64         `json:"fingerprint"`
	Faults      map[string]int `json:"faults,omitempty"`
	Probes      map[string]int `json:"probes,omitempty"`
	Tapes       Tapes          `json:"-"`
	LogTail     []string       `json:"-"`
	Diverged    bool           `json:"diverged,omitempty"`
	Overrun     bool           `json:"overrun,omitempty"`
	Notes       map[string]any `json:"notes,omitempty"`
}

type tstate int

const (
	tRunnable tstate = iota
	tRunning
	tBlocked
	tTimerPending // AfterFunc task whose timer has not fired (no goroutine yet)
	tDone
)

type blockKind int

const (
	bNone blockKind = iota
	bMutex
	bRWRead
	bRWWrite
	bChan
	bWaitGroup
	bUntil
	bJoin
	bQuiesce
	bOnce
	bCond
)

var blockNames = [...]string{"none", "mutex", "rwmutex.R", "rwmutex.W", "chan", "waitgroup", "sleep", "join", "quiesce", "once", "wait"}

type pendAccess struct {
	id    unsafe.Pointer
	write bool
	site  string
}

type task struct {
	id      int
	name    string
	kind    string // name without instance suffix, used in fingerprints
	wake    chan struct{}
	exited  chan struct{}
	started bool // goroutine exists
	state   tstate
	bkind   blockKind
	bobj    uintptr
	bsite   string
	until   time.Time
	horizon time.Duration
	joins   []*task
	pend    pendAccess
	sel     *selWaiter
	fired   atomic.Bool // AfterFunc timer fired, goroutine parked
	prio    int
	ticks   int
	sinceSP int // loop ticks since the task last reached a scheduling point
	tickSite string
	cond    *Cond
	condSignalled bool
	daemon  bool // never counted as "work pending" (cleanup loops etc. are ordinary tasks; this is for harness helpers)
	opLabel string
}

// Sim is one simulated execution.
type Sim struct {
	cfg      Config
	tasks    []*task
	cur      *task
	mainTask *task
	step     uint64
	switches uint64
	preempt  uint64
	maxRun   int
	start    time.Time
	rng      [nStreams]*rand.Rand
	tape     [nStreams][]uint32
	arity    [nStreams][]uint32
	pos      [nStreams]int
	fp       uint64
	log      []string
	logPos   int
	aborting bool
	viol     *Violation
	infra    string
	diverged bool
	overrun  bool
	faults   map[string]int
	probes   map[string]int
	notes    map[string]any
	invs     []invariant
	posts    []func() *Violation
	idRng    *rand.Rand
	portTable map[string]*portEntry
	upstreams map[string]Upstream
	noJumps   bool
	pools     map[*sync.Pool][]any // free lists of woven sync.Pools (PoolGet/PoolPut)
	jumps     int // clock jumps injected so far
	endSim   time.Duration

	locks    map[uintptr]*lockInfo
	chanW    map[uintptr][]*task
	wgs      map[uintptr]*wgInfo
	onces    map[uintptr]*onceInfo
	deadl    map[any]*deadline
	ptrSeq   map[any]uint64
	nextPtr  uint64
	swept    bool // channel waiters were re-polled since the last real progress
	rrLeft   int
	pctChange map[uint64]bool
	stopFns  []func()
}

type invariant struct {
	name string
	f    func() error
}

// active is the simulation in progress in this process (one at a time).
var active *Sim

// Active reports whether a simulation is in progress (woven code and harness helpers may ask).
func Active() bool { return active != nil }

// Cur returns the running simulation or nil.
func Cur() *Sim { return active }

type abortSentinel struct{}

// Run executes body as the main task of a fresh simulation inside a synctest bubble.
func Run(t *testing.T, cfg Config, body func(s *Sim)) (res Result) {
	if cfg.MaxSteps == 0 {
		cfg.MaxSteps = 2_000_000
	}
	if cfg.MaxSimTime == 0 {
		cfg.MaxSimTime = 100 * time.Hour
	}
	if cfg.TickLimit == 0 {
		cfg.TickLimit = 2_000_000
	}
	if cfg.LogTail == 0 {
		cfg.LogTail = 120
	}
	if cfg.SwitchPermille == 0 && cfg.Strategy == StratRandom {
		cfg.SwitchPermille = 300
	}
	s := &Sim{cfg: cfg,
		faults: map[string]int{}, probes: map[string]int{}, notes: map[string]any{},
		locks: map[uintptr]*lockInfo{}, chanW: map[uintptr][]*task{}, wgs: map[uintptr]*wgInfo{},
		onces: map[uintptr]*onceInfo{}, deadl: map[any]*deadline{}, ptrSeq: map[any]uint64{},
	}
	for i := range s.rng {
		s.rng[i] = rand.New(rand.NewPCG(cfg.Seed, 0x9e3779b97f4a7c15*uint64(i+1)))
	}
	s.log = make([]string, cfg.LogTail)
	func() {
		defer func() {
			if r := recover(); r != nil {
				// synctest's own deadlock panic: a task blocked outside the runtime. After a
				// violation this is expected (the run was cut short, un-woven helper goroutines may be
				// left behind) and the violation is what gets reported.
				if s.viol == nil {
					s.infra = fmt.Sprintf("bubble panic: %v", r)
				} else {
					s.notes["bubble_panic_after_violation"] = fmt.Sprint(r)
				}
				active = nil
			}
		}()
		synctest.Test(t, func(t *testing.T) {
			s.start = time.Now()
			active = s
			if cfg.Strategy == StratPCT {
				s.initPCT()
			}
			m := s.newTask("main")
			m.started = true
			m.state = tRunning
			s.cur = m
			s.mainTask = m
			mainDone := make(chan struct{})
			go func() {
				defer close(mainDone)
				defer s.taskExit(m)
				body(s)
			}()
			<-mainDone
			s.endSim = s.simNow()
			s.aborting = true
			s.abortAll()
			for _, f := range s.stopFns {
				f()
			}
			active = nil
		})
	}()
	if s.viol == nil && s.infra == "" {
		// post-run checks (e.g. linearizability of the recorded history) run outside the bubble,
		// on the real clock, so that their own timeouts work
		for _, f := range s.posts {
			if v := f(); v != nil {
				s.viol = v
				break
			}
		}
	}
	res.Violation = s.viol
	res.Infra = s.infra
	res.Steps = s.step
	res.Switches = s.switches
	res.Preemptions = s.preempt
	res.SimTime = s.endSim
	res.Tasks = len(s.tasks)
	res.MaxRunnable = s.maxRun
	for st := SWork; st < nStreams; st++ {
		for _, v := range s.tape[st] {
			s.fp = (s.fp ^ uint64(v) ^ uint64(st)<<32) * 1099511628211
		}
	}
	res.Fingerprint = s.fp
	res.Faults = s.faults
	res.Probes = s.probes
	res.Diverged = s.diverged
	res.Overrun = s.overrun
	res.Notes = s.notes
	res.Tapes = Tapes{Work: s.tape[SWork], Sched: s.tape[SSched], Fault: s.tape[SFault],
		AWork: s.arity[SWork], ASched: s.arity[SSched], AFault: s.arity[SFault]}
	res.LogTail = s.logTail()
	if s.diverged && res.Infra == "" && cfg.Strict {
		res.Infra = "replay diverged: recorded choice arities do not match this execution"
	}
	return res
}


func (s *Sim) simNow() time.Duration { return time.Since(s.start) }

// Now returns simulated time elapsed since the start of the run.
func (s *Sim) Now() time.Duration { return s.simNow() }

func (s *Sim) newTask(name string) *task {
	t := &task{id: len(s.tasks), name: name, kind: kindOf(name), wake: make(chan struct{}, 1), exited: make(chan struct{})}
	if s.cfg.Strategy == StratPCT {
		t.prio = 1000 + s.Choose(SSched, 1000)
	}
	s.tasks = append(s.tasks, t)
	return t
}

func kindOf(name string) string {
	if i := strings.IndexByte(name, '#'); i >= 0 {
		return name[:i]
	}
	return name
}

// Choose draws a value in [0,n) from the given stream, recording it on the tape.
func (s *Sim) Choose(st Stream, n int) int {
	if n <= 1 {
		return 0
	}
	var v uint32
	if s.cfg.Replay != nil {
		tp, ar := s.cfg.Replay.get(st)
		p := s.pos[st]
		if p < len(tp) {
			v = tp[p] % uint32(n)
			if s.cfg.Strict && (p >= len(ar) || ar[p] != uint32(n)) {
				s.diverged = true
			}
		} else if s.cfg.Strict {
			s.overrun = true // ran past the recorded trace (e.g. the recorded violation no longer occurs)
		}
		s.pos[st]++
	} else {
		v = uint32(s.rng[st].IntN(n))
	}
	s.tape[st] = append(s.tape[st], v)
	s.arity[st] = append(s.arity[st], uint32(n))
	return int(v)
}

// Chance draws a boolean that is true with probability permille/1000; tape value 0 means false.
func (s *Sim) Chance(st Stream, permille int) bool {
	if permille <= 0 {
		return false
	}
	v := s.Choose(st, 1000)
	return v != 0 && v <= permille
}

// Fault counts that a fault of the given kind actually fired.
func (s *Sim) Fault(kind string) { s.faults[kind]++ }

// Probe counts that a rare condition of interest was reached.
func (s *Sim) Probe(name string) { s.probes[name]++ }

// Note stores a value in the run's result (e.g. a sample history).
func (s *Sim) Note(k string, v any) { s.notes[k] = v }

// Probe is the package-level form used by harness code that has no *Sim at hand.
func Probe(name string) {
	if s := active; s != nil {
		s.probes[name]++
	}
}

// Invariant registers a closure evaluated between scheduler steps.
func (s *Sim) Invariant(name string, f func() error) { s.invs = append(s.invs, invariant{name, f}) }

// AfterRun registers a check evaluated after the bubble has ended (outside simulated time).
func (s *Sim) AfterRun(f func() *Violation) { s.posts = append(s.posts, f) }

// Stamp is the global step number, for invoke/return stamps of recorded histories.
func (s *Sim) Stamp() uint64 { s.step++; return s.step }

func (s *Sim) logf(format string, a ...any) {
	if len(s.log) == 0 {
		return
	}
	s.log[s.logPos%len(s.log)] = fmt.Sprintf("%d t=%v ", s.step, s.simNow()) + fmt.Sprintf(format, a...)
	s.logPos++
}

// Logf lets a harness add a line to the event log tail.
func (s *Sim) Logf(format string, a ...any) { s.logf(format, a...) }

func (s *Sim) logTail() []string {
	var out []string
	n := len(s.log)
	for i := 0; i < n; i++ {
		e := s.log[(s.logPos+i)%n]
		if e != "" {
			out = append(out, e)
		}
	}
	return out
}

func (s *Sim) fold(kind, site string) {
	h := fnv.New64a()
	var b [8]byte
	for i := 0; i < 8; i++ {
		b[i] = byte(s.fp >> (8 * i))
	}
	h.Write(b[:])
	h.Write([]byte(kind))
	h.Write([]byte{0})
	h.Write([]byte(site))
	s.fp = h.Sum64()
}

// Fail records a violation (only the first one counts) and unwinds the calling task.
func (s *Sim) Fail(class, site, msg string) {
	if s.viol == nil && s.infra == "" {
		s.viol = &Violation{Class: class, Site: site, Msg: msg}
		s.logf("VIOLATION %s|%s: %s", class, site, msg)
	}
	s.aborting = true
	runtime.Goexit()
}

// Infra records infrastructure trouble (never a violation) and unwinds.
func (s *Sim) InfraFail(msg string) {
	if s.infra == "" {
		s.infra = msg
	}
	s.aborting = true
	runtime.Goexit()
}

// failNoExit records a violation from a context that must not Goexit (exit path).
func (s *Sim) failNoExit(class, site, msg string) {
	if s.viol == nil && s.infra == "" {
		s.viol = &Violation{Class: class, Site: site, Msg: msg}
		s.logf("VIOLATION %s|%s: %s", class, site, msg)
	}
	s.aborting = true
}

// taskExit is deferred in every task goroutine.
func (s *Sim) taskExit(t *task) {
	if r := recover(); r != nil {
		if _, ok := r.(abortSentinel); !ok && !s.aborting {
			site, msg := panicSite(r)
			s.failNoExit("panic", site, msg)
		}
	}
	t.state = tDone
	if t == s.mainTask {
		s.aborting = true
		close(t.exited)
		return
	}
	if s.aborting {
		// make sure main dies so the root goroutine can finish the run
		if s.cur == t && s.mainTask.state != tDone {
			s.cur = s.mainTask
			s.mainTask.wake <- struct{}{}
		}
		close(t.exited)
		return
	}
	s.logf("%s exit", t.name)
	for _, o := range s.tasks {
		if o.state == tBlocked && o.bkind == bJoin {
			s.checkJoin(o)
		}
	}
	s.reschedule(t)
	close(t.exited)
}

func (s *Sim) checkJoin(o *task) {
	for _, j := range o.joins {
		if j.state != tDone {
			return
		}
	}
	o.state = tRunnable
}

func panicSite(r any) (string, string) {
	msg := fmt.Sprint(r)
	if e, ok := r.(runtime.Error); ok {
		msg = e.Error()
	}
	// innermost frames that belong to the repository (skip runtime and zzsimrt)
	pcs := make([]uintptr, 64)
	n := runtime.Callers(3, pcs)
	frames := runtime.CallersFrames(pcs[:n])
	var fn []string
	for {
		f, more := frames.Next()
		name := f.Function
		if name != "" && !strings.HasPrefix(name, "runtime.") && !strings.Contains(name, "/zzsimrt.") && !strings.HasPrefix(name, "testing.") {
			fn = append(fn, shortFunc(name))
			if len(fn) == 2 {
				break
			}
		}
		if !more {
			break
		}
	}
	cls := msg
	if i := strings.IndexAny(cls, ":0123456789[{"); i > 8 {
		cls = cls[:i]
	}
	if len(cls) > 60 {
		cls = cls[:60]
	}
	return strings.TrimSpace(cls) + " @ " + strings.Join(fn, " < "), msg + "\n" + string(stack())
}

func stack() []byte {
	b := make([]byte, 16<<10)
	n := runtime.Stack(b, false)
	return b[:n]
}

func shortFunc(name string) string {
	if i := strings.LastIndexByte(name, '/'); i >= 0 {
		name = name[i+1:]
	}
	return name
}

// abortAll releases every parked task once; each leaves through Goexit at its park point.
func (s *Sim) abortAll() {
	for i := 0; i < len(s.tasks); i++ { // tasks may be appended while dying tasks run deferred code
		t := s.tasks[i]
		if t.state == tDone || !t.started {
			continue
		}
		t.wake <- struct{}{}
		<-t.exited
	}
}

// ---------------------------------------------------------------------------------------------
// scheduling

func (s *Sim) runnable(except *task) []*task {
	var r []*task
	for _, t := range s.tasks {
		if t != except && t.state == tRunnable {
			r = append(r, t)
		}
	}
	return r
}

func (s *Sim) collectFired() {
	for _, t := range s.tasks {
		if t.state == tTimerPending && t.fired.Load() {
			t.state = tRunnable
			t.started = true
		}
	}
}

func (s *Sim) initPCT() {
	s.pctChange = map[uint64]bool{}
	n := s.cfg.PCTSteps
	if n <= 0 {
		n = 400
	}
	for i := 0; i < s.cfg.PCTDepth; i++ {
		s.pctChange[uint64(1+s.Choose(SSched, n))] = true
	}
}

// pick chooses the next task to run. cur is the task giving up or keeping the baton; canStay
// says whether cur itself is runnable.
func (s *Sim) pick(cur *task, canStay bool) *task {
	others := s.runnable(cur)
	n := len(others)
	if canStay {
		n++
	}
	if n > s.maxRun {
		s.maxRun = n
	}
	if len(others) == 0 {
		if canStay {
			return cur
		}
		return nil
	}
	if !canStay {
		switch s.cfg.Strategy {
		case StratPCT:
			return s.pctBest(others)
		default:
			return others[s.Choose(SSched, len(others))]
		}
	}
	switch s.cfg.Strategy {
	case StratRunBlock:
		return cur
	case StratPCT:
		if s.pctChange[s.step] {
			low := 0
			for _, t := range s.tasks {
				if t.prio < low {
					low = t.prio
				}
			}
			cur.prio = low - 1
		}
		all := append([]*task{cur}, others...)
		return s.pctBest(all)
	case StratRR:
		if s.rrLeft > 0 {
			s.rrLeft--
			return cur
		}
		q := s.cfg.Quantum
		if q <= 0 {
			q = 4
		}
		s.rrLeft = s.Choose(SSched, q)
		// next by id after cur, cyclic
		for _, t := range others {
			if t.id > cur.id {
				return t
			}
		}
		return others[0]
	default:
		const M = 1024
		r := s.Choose(SSched, M)
		cut := M - (s.cfg.SwitchPermille*M)/1000
		if cut < 1 {
			cut = 1
		}
		if r < cut {
			return cur
		}
		return others[(r-cut)%len(others)]
	}
}

func (s *Sim) pctBest(c []*task) *task {
	best := c[0]
	for _, t := range c[1:] {
		if t.prio > best.prio {
			best = t
		}
	}
	return best
}

// yield is a scheduling point at which the running task stays runnable.
func (s *Sim) yield(site string) {
	t := s.cur
	if s.aborting {
		return
	}
	t.sinceSP = 0
	s.step++
	s.swept = false
	if s.step > s.cfg.MaxSteps {
		if t.ticks > 2000 {
			s.Fail("hang", "loop@"+t.tickSite, fmt.Sprintf("task %s executed %d loop iterations (op %q) and the run exceeded %d scheduler steps", t.name, t.ticks, t.opLabel, s.cfg.MaxSteps))
		}
		s.Fail("hang", "step-budget", fmt.Sprintf("run exceeded %d scheduler steps; blocked: %s", s.cfg.MaxSteps, s.BlockedSummary()))
	}
	s.collectFired()
	s.runInvariants()
	next := s.pick(t, true)
	s.fold(t.kind, site)
	if next == t {
		return
	}
	s.preempt++
	t.state = tRunnable
	s.logf("%s @%s -> %s", t.name, site, next.name)
	s.handoff(t, next)
}

func (s *Sim) handoff(t, next *task) {
	s.switches++
	s.cur = next
	next.state = tRunning
	next.wake <- struct{}{}
	if t.state == tDone {
		return
	}
	<-t.wake
	if s.aborting {
		runtime.Goexit()
	}
	t.state = tRunning
}

// park blocks the running task (its bkind/bobj/bsite already set) and schedules another.
func (s *Sim) park(t *task, k blockKind, obj uintptr, site string) {
	t.state = tBlocked
	t.bkind, t.bobj, t.bsite = k, obj, site
	t.ticks = 0
	t.sinceSP = 0
	s.step++
	s.fold(t.kind, "park:"+site)
	s.logf("%s blocks %s @%s", t.name, blockNames[k], site)
	s.reschedule(t)
	t.bkind, t.bobj = bNone, 0
}

// reschedule gives the baton away; t is blocked, done, or runnable-but-yielding. Returns when t
// runs again (never, for a done task: then it returns immediately after the hand-off).
func (s *Sim) reschedule(t *task) {
	for {
		if s.aborting {
			if t.state != tDone {
				runtime.Goexit()
			}
			return
		}
		if s.step > s.cfg.MaxSteps {
			s.failOrExit(t, "hang", "step-budget", fmt.Sprintf("run exceeded %d scheduler steps; blocked: %s", s.cfg.MaxSteps, s.BlockedSummary()))
			return
		}
		s.collectFired()
		s.runInvariantsFrom(t)
		if s.aborting {
			continue
		}
		next := s.pick(t, t.state == tRunnable)
		if next == t {
			t.state = tRunning
			return
		}
		if next != nil {
			s.handoff(t, next)
			return
		}
		s.idle(t)
	}
}

func (s *Sim) failOrExit(t *task, class, site, msg string) {
	if t.state == tDone {
		s.failNoExit(class, site, msg)
		if s.mainTask.state != tDone && s.cur == t {
			s.cur = s.mainTask
			s.mainTask.wake <- struct{}{}
		}
		return
	}
	s.Fail(class, site, msg)
}

func (s *Sim) runInvariants() { s.runInvariantsFrom(s.cur) }

func (s *Sim) runInvariantsFrom(t *task) {
	for _, iv := range s.invs {
		if err := iv.f(); err != nil {
			s.failOrExit(t, "invariant", iv.name, err.Error())
			return
		}
	}
}

// idle is run by the task that found nothing runnable: re-poll channel waiters once, else move
// the clock to the next registered deadline, else wake a quiescing main, else deadlock.
func (s *Sim) idle(t *task) {
	// 1. one sweep of channel waiters per burst of activity (covers wake-ups by un-woven code)
	if !s.swept {
		s.swept = true
		n := 0
		for _, o := range s.tasks {
			if o.state == tBlocked && o.bkind == bChan {
				o.state = tRunnable
				n++
			}
		}
		if n > 0 {
			return
		}
	}
	now := time.Now()
	next, ok := s.nextDeadline(now)
	// 2. a quiescing main is released when nothing is due within its horizon
	m := s.mainTask
	if m.state == tBlocked && m.bkind == bQuiesce {
		if !ok || next.Sub(now) > m.horizon {
			m.state = tRunnable
			return
		}
	}
	if !ok {
		s.failOrExit(t, "deadlock", s.blockedSites(), "all tasks blocked and no timer registered: "+s.BlockedSummary())
		return
	}
	if s.simNow() > s.cfg.MaxSimTime {
		s.failOrExit(t, "hang", "simtime-budget", "simulated time budget exceeded; blocked: "+s.BlockedSummary())
		return
	}
	// 3. advance the clock; optionally jump past several deadlines (stalled process)
	target := next
	if s.cfg.ClockJumpPermille > 0 && !s.noJumps && s.Chance(SFault, s.cfg.ClockJumpPermille) {
		k := 1 + s.Choose(SFault, 4)
		for i := 0; i < k; i++ {
			if n2, ok2 := s.nextDeadline(target.Add(time.Nanosecond)); ok2 {
				target = n2
			}
		}
		if target.After(next) {
			s.Fault("clock-jump")
			s.jumps++
		}
	}
	d := target.Sub(now)
	if d > 0 {
		time.Sleep(d)
	}
	synctest.Wait()
	s.logf("clock -> %v", s.simNow())
	s.afterClockAdvance()
}

func (s *Sim) afterClockAdvance() {
	now := time.Now()
	for _, o := range s.tasks {
		if o.state != tBlocked {
			continue
		}
		switch o.bkind {
		case bUntil:
			if !o.until.After(now) {
				o.state = tRunnable
			}
		case bCond:
			if !o.until.IsZero() && !o.until.After(now) {
				o.state = tRunnable // deadline passed without a signal
			}
		case bChan:
			o.state = tRunnable // re-poll: a timer or context may have fired into its channel
		}
	}
	for k, d := range s.deadl {
		if d.period == 0 && !d.when.After(now) {
			delete(s.deadl, k)
		}
	}
	s.collectFired()
}

// BlockedSummary lists blocked tasks with their reasons (for messages).
func (s *Sim) BlockedSummary() string {
	var parts []string
	for _, t := range s.tasks {
		if t.state == tBlocked {
			parts = append(parts, fmt.Sprintf("%s[%s@%s]", t.name, blockNames[t.bkind], t.bsite))
		}
	}
	return strings.Join(parts, " ")
}

func (s *Sim) blockedSites() string {
	var parts []string
	for _, t := range s.tasks {
		if t.state == tBlocked && t.bkind != bQuiesce && t.bkind != bJoin {
			parts = append(parts, t.kind+":"+blockNames[t.bkind]+"@"+t.bsite)
		}
	}
	sort.Strings(parts)
	// collapse duplicates
	var out []string
	for i, p := range parts {
		if i == 0 || parts[i-1] != p {
			out = append(out, p)
		}
	}
	return strings.Join(out, ",")
}

// BlockedSitesOf returns the signature site list for the given tasks (deadlock reports by harnesses).
func (s *Sim) BlockedSitesOf(hs ...*Handle) string {
	var parts []string
	for _, h := range hs {
		t := h.t
		if t.state == tBlocked {
			parts = append(parts, t.kind+":"+blockNames[t.bkind]+"@"+t.bsite)
		}
	}
	sort.Strings(parts)
	return strings.Join(parts, ",")
}

// ---------------------------------------------------------------------------------------------
// task API

// Handle names a spawned task.
type Handle struct{ t *task }

// Done reports whether the task finished.
func (h *Handle) Done() bool { return h.t.state == tDone }

// Blocked describes where the task is blocked ("" if it is not).
func (h *Handle) Blocked() string {
	if h.t.state != tBlocked {
		return ""
	}
	return blockNames[h.t.bkind] + "@" + h.t.bsite
}

// Spawn starts f as a new task (runnable, parked until scheduled).
func (s *Sim) Spawn(name string, f func()) *Handle {
	return &Handle{s.spawn(name, f)}
}

func (s *Sim) spawn(name string, f func()) *task {
	t := s.newTask(name)
	t.started = true
	t.state = tRunnable
	go func() {
		defer s.taskExit(t)
		<-t.wake
		if s.aborting {
			return
		}
		t.state = tRunning
		f()
	}()
	return t
}

// Go is what a woven `go f()` statement becomes.
func Go(site string, f func()) {
	s := active
	if s == nil {
		go f()
		return
	}
	if s.aborting {
		return
	}
	s.spawn(site+"#"+fmt.Sprint(len(s.tasks)), f)
	s.yield("go:" + site)
}

func Go1[A any](site string, f func(A), a A) { Go(site, func() { f(a) }) }
func Go2[A, B any](site string, f func(A, B), a A, b B) {
	Go(site, func() { f(a, b) })
}
func Go3[A, B, C any](site string, f func(A, B, C), a A, b B, c C) {
	Go(site, func() { f(a, b, c) })
}

// Wait blocks the calling task until all given tasks are done.
func (s *Sim) Wait(hs ...*Handle) {
	t := s.cur
	t.joins = t.joins[:0]
	for _, h := range hs {
		if h.t.state != tDone {
			t.joins = append(t.joins, h.t)
		}
	}
	if len(t.joins) == 0 {
		return
	}
	s.park(t, bJoin, 0, "join")
}

// WaitTimeout waits until the tasks are done or d of simulated time has passed; reports whether
// all are done.
func (s *Sim) WaitTimeout(d time.Duration, hs ...*Handle) bool {
	deadline := time.Now().Add(d)
	jumps := s.jumps
	for {
		// let everything runnable run (and every re-poll settle), then look
		s.Quiesce(0)
		all := true
		for _, h := range hs {
			if h.t.state != tDone {
				all = false
			}
		}
		if all {
			return true
		}
		now := time.Now()
		if !now.Before(deadline) {
			if s.jumps != jumps {
				// the clock leapt (a stalled process) while we waited: a bound in simulated time
				// says nothing across a stall, so the wait starts over from here
				jumps = s.jumps
				deadline = now.Add(d)
				continue
			}
			return false
		}
		// move the clock in hops bounded by the deadline
		next, ok := s.nextDeadline(now)
		if !ok || next.After(deadline) {
			next = deadline
		}
		s.sleepUntil(next, "wait-timeout")
	}
}

// Quiesce blocks the calling (main) task until no task is runnable and no registered deadline
// lies within horizon of the current simulated time.
func (s *Sim) Quiesce(horizon time.Duration) {
	t := s.cur
	if t != s.mainTask {
		panic("zzsimrt: Quiesce from a task other than main")
	}
	t.horizon = horizon
	s.park(t, bQuiesce, 0, "quiesce")
}

// Sleep blocks the calling task for d of simulated time.
func (s *Sim) Sleep(d time.Duration) { s.sleepUntil(time.Now().Add(d), "sim.Sleep") }

func (s *Sim) sleepUntil(when time.Time, site string) {
	t := s.cur
	if !when.After(time.Now()) {
		s.yield(site)
		return
	}
	t.until = when
	s.park(t, bUntil, 0, site)
}

// Yield is an explicit scheduling point (weave levels L1/L2 and harness code).
func Yield(site string) {
	if s := active; s != nil {
		s.yield(site)
	}
}

// Tick is placed at the top of every loop body of woven code.
func Tick(site string) {
	s := active
	if s == nil {
		return
	}
	t := s.cur
	t.ticks++
	t.sinceSP++
	t.tickSite = site
	if t.sinceSP&4095 == 0 {
		if t.sinceSP >= s.cfg.TickLimit {
			if s.aborting {
				runtime.Goexit()
			}
			s.Fail("hang", "loop@"+site, fmt.Sprintf("task %s executed %d loop iterations without reaching a scheduling point (op %q)", t.name, t.sinceSP, t.opLabel))
		}
	}
}

// SetLimits lets a harness tighten the step and loop-tick budgets of the run.
func (s *Sim) SetLimits(maxSteps uint64, tickLimit int) {
	if maxSteps > 0 {
		s.cfg.MaxSteps = maxSteps
	}
	if tickLimit > 0 {
		s.cfg.TickLimit = tickLimit
	}
}

// SetStrategy switches the scheduling strategy for the rest of the run (or until switched back)
// and returns the previous one. Harnesses use it to obtain a non-preemptive reference execution.
// SetClockJumps switches the injected clock jumps (idle time leaping past several deadlines, as
// in a stalled process) on or off for the phases of a run that follow; it returns the previous
// setting. Reference phases that must reproduce recorded instants exactly switch them off.
func (s *Sim) SetClockJumps(on bool) bool {
	prev := !s.noJumps
	s.noJumps = !on
	return prev
}

func (s *Sim) SetStrategy(st Strategy) Strategy {
	prev := s.cfg.Strategy
	s.cfg.Strategy = st
	if st == StratPCT && s.pctChange == nil {
		s.pctChange = map[uint64]bool{}
	}
	return prev
}

// RandBytes fills b from a stream derived from the run's seed (not recorded on a tape: a replay
// uses the same seed and therefore the same stream).
func (s *Sim) RandBytes(b []byte) {
	if s.idRng == nil {
		s.idRng = rand.New(rand.NewPCG(s.cfg.Seed, 0x1d5eed))
	}
	for i := range b {
		b[i] = byte(s.idRng.UintN(256))
	}
}

// Settle waits until every goroutine of the bubble other than the caller is durably blocked
// (lets un-woven helper goroutines, e.g. database/sql's context watchers, finish reacting).
func (s *Sim) Settle() { synctest.Wait() }

// SetMaxSimTime changes the simulated-time budget of the run.
func (s *Sim) SetMaxSimTime(d time.Duration) { s.cfg.MaxSimTime = d }

// Op labels what the current task is executing (appears in hang reports).
// TaskName is the name of the task that is running now.
func (s *Sim) TaskName() string { return s.cur.name }

func (s *Sim) Op(label string) { s.cur.opLabel = label; s.cur.ticks = 0; s.cur.sinceSP = 0 }

// TaskCount returns how many tasks exist and how many are not done.
func (s *Sim) TaskCount() (total, live int) {
	for _, t := range s.tasks {
		total++
		if t.state != tDone {
			live++
		}
	}
	return
}

// LiveTasks lists the names of tasks that are not done.
func (s *Sim) LiveTasks() []string {
	var out []string
	for _, t := range s.tasks {
		if t.state != tDone && t != s.mainTask {
			out = append(out, t.name)
		}
	}
	return out
}
