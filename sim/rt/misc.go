package zzsimrt

import (
	"cmp"
	"fmt"
	"iter"
	"reflect"
	"runtime"
	"sort"
	"unsafe"
)

func goexit() { runtime.Goexit() }

// NoteKey records the first-sight sequence number of a pointer-like map key, so that RangeMap
// can order such keys deterministically. The weaver inserts it before map assignments whose key
// type is a pointer, channel or interface.
func NoteKey[K comparable](k K) {
	s := active
	if s == nil {
		return
	}
	var ak any = k
	if _, ok := s.ptrSeq[ak]; !ok {
		s.nextPtr++
		s.ptrSeq[ak] = s.nextPtr
	}
}

type keyed[K any] struct {
	k   K
	ord uint64
	str string
}

// RangeMap replaces `range m` over a map: keys are snapshotted, ordered deterministically and
// then rotated/shuffled by a seeded choice; entries deleted during the iteration are skipped.
func RangeMap[K comparable, V any](site string, m map[K]V) iter.Seq2[K, V] {
	return func(yield func(K, V) bool) {
		s := active
		if s == nil || s.aborting || len(m) == 0 {
			for k, v := range m {
				if !yield(k, v) {
					return
				}
			}
			return
		}
		keys := sortedKeys(s, m)
		n := len(keys)
		if n > 1 {
			// seeded order: random rotation plus optional reversal — cheap, deterministic, and
			// enough to put any element first or last
			r := s.Choose(SSched, 2*n)
			rot, rev := r%n, r >= n
			out := make([]K, n)
			for i := range keys {
				j := (i + rot) % n
				if rev {
					j = (n - 1 - i + rot) % n
				}
				out[i] = keys[j]
			}
			keys = out
		}
		for _, k := range keys {
			v, ok := m[k]
			if !ok {
				continue
			}
			if !yield(k, v) {
				return
			}
		}
	}
}

func sortedKeys[K comparable, V any](s *Sim, m map[K]V) []K {
	keys := make([]K, 0, len(m))
	for k := range m {
		keys = append(keys, k)
	}
	if len(keys) < 2 {
		return keys
	}
	switch ks := any(keys).(type) {
	case []string:
		sort.Strings(ks)
		return keys
	case []int:
		sort.Ints(ks)
		return keys
	}
	kind := reflect.TypeOf(keys[0]).Kind()
	switch kind {
	case reflect.String:
		sortBy(keys, func(k K) string { return reflect.ValueOf(k).String() })
	case reflect.Int, reflect.Int8, reflect.Int16, reflect.Int32, reflect.Int64:
		sortBy(keys, func(k K) int64 { return reflect.ValueOf(k).Int() })
	case reflect.Uint, reflect.Uint8, reflect.Uint16, reflect.Uint32, reflect.Uint64, reflect.Uintptr:
		sortBy(keys, func(k K) uint64 { return reflect.ValueOf(k).Uint() })
	case reflect.Float32, reflect.Float64:
		sortBy(keys, func(k K) float64 { return reflect.ValueOf(k).Float() })
	case reflect.Bool:
		sortBy(keys, func(k K) int {
			if reflect.ValueOf(k).Bool() {
				return 1
			}
			return 0
		})
	case reflect.Pointer, reflect.Chan, reflect.UnsafePointer, reflect.Interface:
		sortBy(keys, func(k K) uint64 {
			o, ok := s.ptrSeq[any(k)]
			if !ok {
				// interface holding a value type: order by printed form
				if kind == reflect.Interface {
					rv := reflect.ValueOf(k)
					if rv.IsValid() && rv.Kind() != reflect.Pointer && rv.Kind() != reflect.Chan {
						return hashStr(fmt.Sprintf("%T:%v", k, k))
					}
				}
				s.InfraFail(fmt.Sprintf("RangeMap: pointer-like key %T was never registered with NoteKey; iteration order would not replay", k))
			}
			return o
		})
	default:
		sortBy(keys, func(k K) string { return fmt.Sprintf("%#v", k) })
	}
	return keys
}

func hashStr(x string) uint64 {
	var h uint64 = 1469598103934665603
	for i := 0; i < len(x); i++ {
		h ^= uint64(x[i])
		h *= 1099511628211
	}
	return h | 1<<63
}

func sortBy[K any, O cmp.Ordered](keys []K, f func(K) O) {
	sort.SliceStable(keys, func(i, j int) bool { return f(keys[i]) < f(keys[j]) })
}

// ---------------------------------------------------------------------------------------------
// race probes

// Touch is a race probe: the running task is about to access the object at p. A data race is
// reported iff another *runnable* task is parked at a conflicting Touch of the same object —
// two tasks simultaneously enabled at conflicting accesses.
func Touch(p unsafe.Pointer, write bool, site string) {
	s := active
	if s == nil || s.aborting || p == nil {
		return
	}
	touch(s, p, write, site)
}

// TouchMap is Touch for a map value (identity = the map header).
func TouchMap[K comparable, V any](m map[K]V, write bool, site string) {
	s := active
	if s == nil || s.aborting || m == nil {
		return
	}
	touch(s, *(*unsafe.Pointer)(unsafe.Pointer(&m)), write, site)
}

// TouchDeep is placed before a value is handed to a JSON encoder: the encoder reads every map
// reachable from it, so each is probed as a read (bounded walk).
func TouchDeep(v any, site string) {
	s := active
	if s == nil || s.aborting || v == nil {
		return
	}
	var maps []unsafe.Pointer
	seen := map[unsafe.Pointer]bool{}
	var walk func(rv reflect.Value, depth int)
	walk = func(rv reflect.Value, depth int) {
		if depth > 8 || len(maps) >= 48 || !rv.IsValid() {
			return
		}
		switch rv.Kind() {
		case reflect.Interface, reflect.Pointer:
			if !rv.IsNil() {
				walk(rv.Elem(), depth+1)
			}
		case reflect.Map:
			if rv.IsNil() {
				return
			}
			p := rv.UnsafePointer()
			if seen[p] {
				return
			}
			seen[p] = true
			maps = append(maps, p)
			// deterministic order (Go's map iteration order is random and would not replay)
			ks := rv.MapKeys()
			sort.Slice(ks, func(i, j int) bool { return fmt.Sprint(ks[i].Interface()) < fmt.Sprint(ks[j].Interface()) })
			for _, k := range ks {
				walk(rv.MapIndex(k), depth+1)
			}
		case reflect.Slice, reflect.Array:
			for i := 0; i < rv.Len() && i < 64; i++ {
				walk(rv.Index(i), depth+1)
			}
		case reflect.Struct:
			for i := 0; i < rv.NumField(); i++ {
				if rv.Type().Field(i).IsExported() {
					walk(rv.Field(i), depth+1)
				}
			}
		}
	}
	walk(reflect.ValueOf(v), 0)
	for _, p := range maps {
		if s.aborting {
			return
		}
		touch(s, p, false, site)
	}
}

// The identity is kept as a real pointer, not a uintptr: a probed local variable therefore
// escapes to the heap, so its address cannot be reused by another goroutine's stack while a
// parked task still refers to it (stacks of parked goroutines may be moved by the runtime).
func touch(s *Sim, id unsafe.Pointer, write bool, site string) {
	t := s.cur
	for _, o := range s.tasks {
		if o != t && o.state == tRunnable && o.pend.id == id && (write || o.pend.write) {
			a, b := site, o.pend.site
			if b < a {
				a, b = b, a
			}
			s.Fail("race", a+" <-> "+b, fmt.Sprintf("data race: task %s at %s (write=%v) and task %s at %s (write=%v) are both enabled on the same object", t.name, site, write, o.name, o.pend.site, o.pend.write))
		}
	}
	t.pend = pendAccess{id: id, write: write, site: site}
	s.yield(site)
	t.pend = pendAccess{}
}
