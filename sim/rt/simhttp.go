package zzsimrt

import (
	"context"
	"errors"
	"net/http"
	"net/http/httptest"
	"net/url"
	"strings"
	"time"
)

// Simulated port table: the stand-in for listening sockets. (*http.Server).ListenAndServe and
// Shutdown calls in woven code are redirected here; harness requests are dispatched to whatever
// server currently owns the address, or refused.

type portEntry struct {
	srv      *http.Server
	inflight int
	stopped  *Cond
	idle     *Cond
	down     bool
}

func (s *Sim) ports() map[string]*portEntry {
	if s.portTable == nil {
		s.portTable = map[string]*portEntry{}
	}
	return s.portTable
}

// SimListenAndServe replaces (*http.Server).ListenAndServe.
func SimListenAndServe(srv *http.Server) error {
	s := active
	if s == nil {
		return srv.ListenAndServe()
	}
	if s.aborting {
		return http.ErrServerClosed
	}
	s.yield("simhttp.Listen")
	pt := s.ports()
	if e, taken := pt[srv.Addr]; taken && !e.down {
		s.Probe("listen:address-in-use")
		return errors.New("listen tcp " + srv.Addr + ": bind: address already in use")
	}
	e := &portEntry{srv: srv, stopped: NewCond("simhttp.serve"), idle: NewCond("simhttp.idle")}
	pt[srv.Addr] = e
	s.logf("listen %s", srv.Addr)
	for !e.down {
		e.stopped.Wait(time.Time{}, "ListenAndServe")
		if s.aborting {
			break
		}
	}
	return http.ErrServerClosed
}

// SimShutdown replaces (*http.Server).Shutdown.
func SimShutdown(srv *http.Server, ctx context.Context) error {
	s := active
	if s == nil {
		return srv.Shutdown(ctx)
	}
	if s.aborting {
		return nil
	}
	s.yield("simhttp.Shutdown")
	pt := s.ports()
	e := pt[srv.Addr]
	if e == nil || e.srv != srv || e.down {
		return nil // not listening (never started, or already shut down)
	}
	e.down = true // stop accepting
	s.logf("shutdown %s", srv.Addr)
	dl, has := ctx.Deadline()
	for e.inflight > 0 {
		if has && !dl.After(time.Now()) {
			delete(pt, srv.Addr)
			e.stopped.Signal()
			return context.DeadlineExceeded
		}
		var d time.Time
		if has {
			d = dl
		}
		e.idle.Wait(d, "Shutdown")
	}
	delete(pt, srv.Addr)
	e.stopped.Signal()
	return nil
}

// HTTPDo sends a request to the simulated address; refused reports that nothing is listening.
func (s *Sim) HTTPDo(addr string, req *http.Request) (status int, body string, refused bool) {
	return s.HTTPDoWatch(addr, req, nil)
}

// HTTPDoWatch is HTTPDo for a streaming response: onWrite sees every chunk the handler writes, as
// the client at the other end of the connection would (it may react, e.g. by hanging up).
func (s *Sim) HTTPDoWatch(addr string, req *http.Request, onWrite func(chunk []byte)) (status int, body string, refused bool) {
	s.yield("simhttp.Do")
	e := s.ports()[addr]
	if e == nil || e.down {
		return 0, "", true
	}
	e.inflight++
	rec := httptest.NewRecorder()
	g := &guardedWriter{ResponseRecorder: rec, s: s, path: req.URL.Path, onWrite: onWrite}
	func() {
		defer func() {
			g.finished = true
			e.inflight--
			if e.inflight == 0 {
				e.idle.Signal()
			}
		}()
		e.srv.Handler.ServeHTTP(g, req)
	}()
	return rec.Code, rec.Body.String(), false
}

// guardedWriter is the ResponseWriter a simulated request is served with. net/http forbids using
// a ResponseWriter after its handler has returned (the server recycles its buffers: a late Write
// or Flush is a nil dereference on whatever goroutine makes it); the recorder would accept it
// silently, so the guard reports it. Write and Flush are scheduling points, as a network write is.
type guardedWriter struct {
	*httptest.ResponseRecorder
	s        *Sim
	path     string
	finished bool
	onWrite  func([]byte)
}

func (g *guardedWriter) late(what string) {
	g.s.Fail("panic", "response-writer-used-after-handler-returned", "a ResponseWriter ("+g.path+") was "+what+" after its handler had returned: in net/http this is a nil-pointer panic on the calling goroutine")
}

func (g *guardedWriter) Write(b []byte) (int, error) {
	if g.finished {
		g.late("written to")
	}
	g.s.yield("simhttp.Write")
	if g.finished {
		g.late("written to")
	}
	n, err := g.ResponseRecorder.Write(b)
	if g.onWrite != nil {
		g.onWrite(b)
	}
	return n, err
}

func (g *guardedWriter) Flush() {
	if g.finished {
		g.late("flushed")
	}
	g.s.yield("simhttp.Flush")
	if g.finished {
		g.late("flushed")
	}
	g.ResponseRecorder.Flush()
}

// Listening reports whether a server currently owns the address.
func (s *Sim) Listening(addr string) bool {
	e := s.ports()[addr]
	return e != nil && !e.down
}

// Simulated upstreams: the stand-in for the servers a program calls out to. (*http.Client).Do in
// woven code is redirected to SimClientDo, which looks the request's host up here. An upstream is
// a pure function of the request; it says how long the answer takes, in simulated time.

// Upstream answers one outbound request: status, headers, body, and the time the answer takes.
type Upstream func(req *http.Request) (status int, hdr http.Header, body string, takes time.Duration)

// SetUpstream registers the server behind host (as in the request URL).
func (s *Sim) SetUpstream(host string, u Upstream) {
	if s.upstreams == nil {
		s.upstreams = map[string]Upstream{}
	}
	s.upstreams[host] = u
}

type simTimeout struct{ msg string }

func (e simTimeout) Error() string   { return e.msg }
func (e simTimeout) Timeout() bool   { return true }
func (e simTimeout) Temporary() bool { return true }

// SimClientDo replaces (*http.Client).Do: the client's Timeout and CheckRedirect are honoured as
// net/http honours them (the timeout covers the whole exchange including redirects; at most 10
// redirects are followed unless CheckRedirect says otherwise).
func SimClientDo(c *http.Client, req *http.Request) (*http.Response, error) {
	s := active
	if s == nil {
		return c.Do(req)
	}
	s.yield("simhttp.ClientDo")
	timeout := c.Timeout // read once, when the exchange starts, as net/http does
	check := c.CheckRedirect
	spent := time.Duration(0)
	var via []*http.Request
	for {
		u := s.upstreams[req.URL.Host]
		if u == nil {
			return nil, &url.Error{Op: titleMethod(req.Method), URL: req.URL.String(), Err: errors.New("dial tcp: lookup " + req.URL.Host + ": no such host")}
		}
		status, hdr, body, takes := u(req)
		if takes >= time.Second {
			s.Fault("slow-upstream")
		}
		if timeout > 0 && spent+takes >= timeout {
			s.Sleep(timeout - spent)
			s.Probe("outbound-call-timed-out")
			return nil, &url.Error{Op: titleMethod(req.Method), URL: req.URL.String(), Err: simTimeout{"context deadline exceeded (Client.Timeout exceeded while awaiting headers)"}}
		}
		if takes > 0 {
			s.Sleep(takes)
		} else {
			s.yield("simhttp.ClientDo.answer")
		}
		spent += takes
		rec := httptest.NewRecorder()
		for k, vs := range hdr {
			for _, v := range vs {
				rec.Header().Add(k, v)
			}
		}
		rec.WriteHeader(status)
		rec.Body.WriteString(body)
		resp := rec.Result()
		resp.Request = req
		loc := resp.Header.Get("Location")
		if status < 300 || status > 399 || loc == "" {
			return resp, nil
		}
		next, err := req.URL.Parse(loc)
		if err != nil {
			return resp, nil
		}
		nreq, _ := http.NewRequest("GET", next.String(), nil)
		via = append(via, req)
		if check != nil {
			if err := check(nreq, via); err == http.ErrUseLastResponse {
				return resp, nil
			} else if err != nil {
				return resp, &url.Error{Op: titleMethod(req.Method), URL: req.URL.String(), Err: err}
			}
		} else if len(via) >= 10 {
			return resp, &url.Error{Op: titleMethod(req.Method), URL: req.URL.String(), Err: errors.New("stopped after 10 redirects")}
		}
		req = nreq
	}
}

func titleMethod(m string) string {
	if m == "" {
		return "Get"
	}
	return m[:1] + strings.ToLower(m[1:])
}
