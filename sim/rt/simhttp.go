package zzsimrt

import (
	"context"
	"errors"
	"net/http"
	"net/http/httptest"
	"time"
)

// Simulated port table: the stand-in for listening sockets. (*http.Server).ListenAndServe and
// Shutdown calls in woven code are redirected here; harness requests are dispatched to whatever
// server currently owns the address, or refused.

type portEntry struct {
	srv      *http.Server
	inflight int
	stopped  *Cond
	idle     *Cond
	down     bool
}

func (s *Sim) ports() map[string]*portEntry {
	if s.portTable == nil {
		s.portTable = map[string]*portEntry{}
	}
	return s.portTable
}

// SimListenAndServe replaces (*http.Server).ListenAndServe.
func SimListenAndServe(srv *http.Server) error {
	s := active
	if s == nil {
		return srv.ListenAndServe()
	}
	if s.aborting {
		return http.ErrServerClosed
	}
	s.yield("simhttp.Listen")
	pt := s.ports()
	if e, taken := pt[srv.Addr]; taken && !e.down {
		s.Probe("listen:address-in-use")
		return errors.New("listen tcp " + srv.Addr + ": bind: address already in use")
	}
	e := &portEntry{srv: srv, stopped: NewCond("simhttp.serve"), idle: NewCond("simhttp.idle")}
	pt[srv.Addr] = e
	s.logf("listen %s", srv.Addr)
	for !e.down {
		e.stopped.Wait(time.Time{}, "ListenAndServe")
		if s.aborting {
			break
		}
	}
	return http.ErrServerClosed
}

// SimShutdown replaces (*http.Server).Shutdown.
func SimShutdown(srv *http.Server, ctx context.Context) error {
	s := active
	if s == nil {
		return srv.Shutdown(ctx)
	}
	if s.aborting {
		return nil
	}
	s.yield("simhttp.Shutdown")
	pt := s.ports()
	e := pt[srv.Addr]
	if e == nil || e.srv != srv || e.down {
		return nil // not listening (never started, or already shut down)
	}
	e.down = true // stop accepting
	s.logf("shutdown %s", srv.Addr)
	dl, has := ctx.Deadline()
	for e.inflight > 0 {
		if has && !dl.After(time.Now()) {
			delete(pt, srv.Addr)
			e.stopped.Signal()
			return context.DeadlineExceeded
		}
		var d time.Time
		if has {
			d = dl
		}
		e.idle.Wait(d, "Shutdown")
	}
	delete(pt, srv.Addr)
	e.stopped.Signal()
	return nil
}

// HTTPDo sends a request to the simulated address; refused reports that nothing is listening.
func (s *Sim) HTTPDo(addr string, req *http.Request) (status int, body string, refused bool) {
	return s.HTTPDoWatch(addr, req, nil)
}

// HTTPDoWatch is HTTPDo for a streaming response: onWrite sees every chunk the handler writes, as
// the client at the other end of the connection would (it may react, e.g. by hanging up).
func (s *Sim) HTTPDoWatch(addr string, req *http.Request, onWrite func(chunk []byte)) (status int, body string, refused bool) {
	s.yield("simhttp.Do")
	e := s.ports()[addr]
	if e == nil || e.down {
		return 0, "", true
	}
	e.inflight++
	rec := httptest.NewRecorder()
	g := &guardedWriter{ResponseRecorder: rec, s: s, path: req.URL.Path, onWrite: onWrite}
	func() {
		defer func() {
			g.finished = true
			e.inflight--
			if e.inflight == 0 {
				e.idle.Signal()
			}
		}()
		e.srv.Handler.ServeHTTP(g, req)
	}()
	return rec.Code, rec.Body.String(), false
}

// guardedWriter is the ResponseWriter a simulated request is served with. net/http forbids using
// a ResponseWriter after its handler has returned (the server recycles its buffers: a late Write
// or Flush is a nil dereference on whatever goroutine makes it); the recorder would accept it
// silently, so the guard reports it. Write and Flush are scheduling points, as a network write is.
type guardedWriter struct {
	*httptest.ResponseRecorder
	s        *Sim
	path     string
	finished bool
	onWrite  func([]byte)
}

func (g *guardedWriter) late(what string) {
	g.s.Fail("panic", "response-writer-used-after-handler-returned", "a ResponseWriter ("+g.path+") was "+what+" after its handler had returned: in net/http this is a nil-pointer panic on the calling goroutine")
}

func (g *guardedWriter) Write(b []byte) (int, error) {
	if g.finished {
		g.late("written to")
	}
	g.s.yield("simhttp.Write")
	if g.finished {
		g.late("written to")
	}
	n, err := g.ResponseRecorder.Write(b)
	if g.onWrite != nil {
		g.onWrite(b)
	}
	return n, err
}

func (g *guardedWriter) Flush() {
	if g.finished {
		g.late("flushed")
	}
	g.s.yield("simhttp.Flush")
	if g.finished {
		g.late("flushed")
	}
	g.ResponseRecorder.Flush()
}

// Listening reports whether a server currently owns the address.
func (s *Sim) Listening(addr string) bool {
	e := s.ports()[addr]
	return e != nil && !e.down
}
