package zzsimrt

import (
	"reflect"
	"sync"
	"unsafe"
)

// lockInfo shadows one sync.Mutex / sync.RWMutex.
type lockInfo struct {
	owner    *task // exclusive holder
	readers  int
	wWaiting int // parked writers (Go blocks new readers while a writer waits)
}

func (s *Sim) lock(p unsafe.Pointer) *lockInfo {
	k := uintptr(p)
	li := s.locks[k]
	if li == nil {
		li = &lockInfo{}
		s.locks[k] = li
	}
	return li
}

// Held reports whether the mutex at p is currently held (exclusively or shared). Harness
// invariants use it to skip states inside a critical section.
func (s *Sim) Held(p unsafe.Pointer) bool {
	li := s.locks[uintptr(p)]
	return li != nil && (li.owner != nil || li.readers > 0)
}

func (s *Sim) wakeLockWaiters(k uintptr) {
	for _, o := range s.tasks {
		if o.state == tBlocked && o.bobj == k && (o.bkind == bMutex || o.bkind == bRWRead || o.bkind == bRWWrite) {
			o.state = tRunnable
		}
	}
}

// Lock replaces (*sync.Mutex).Lock.
func Lock(m *sync.Mutex, site string) {
	s := active
	if s == nil {
		m.Lock()
		return
	}
	if s.aborting {
		return
	}
	s.yield(site)
	li := s.lock(unsafe.Pointer(m))
	for li.owner != nil || !m.TryLock() {
		s.park(s.cur, bMutex, uintptr(unsafe.Pointer(m)), site)
	}
	li.owner = s.cur
}

// Unlock replaces (*sync.Mutex).Unlock.
func Unlock(m *sync.Mutex, site string) {
	s := active
	if s == nil {
		m.Unlock()
		return
	}
	if s.aborting {
		return
	}
	li := s.lock(unsafe.Pointer(m))
	li.owner = nil
	m.Unlock()
	s.wakeLockWaiters(uintptr(unsafe.Pointer(m)))
	// releasing a lock is where another thread gets in: "looked under the lock, acts outside it"
	// needs a preemption right here
	s.yield(site)
}

// TryLock replaces (*sync.Mutex).TryLock.
func TryLock(m *sync.Mutex, site string) bool {
	s := active
	if s == nil {
		return m.TryLock()
	}
	if s.aborting {
		return true
	}
	s.yield(site)
	li := s.lock(unsafe.Pointer(m))
	if li.owner == nil && m.TryLock() {
		li.owner = s.cur
		return true
	}
	return false
}

// WLock replaces (*sync.RWMutex).Lock.
func WLock(m *sync.RWMutex, site string) {
	s := active
	if s == nil {
		m.Lock()
		return
	}
	if s.aborting {
		return
	}
	s.yield(site)
	li := s.lock(unsafe.Pointer(m))
	for li.owner != nil || li.readers > 0 || !m.TryLock() {
		li.wWaiting++
		s.park(s.cur, bRWWrite, uintptr(unsafe.Pointer(m)), site)
		li.wWaiting--
	}
	li.owner = s.cur
}

// WUnlock replaces (*sync.RWMutex).Unlock.
func WUnlock(m *sync.RWMutex, site string) {
	s := active
	if s == nil {
		m.Unlock()
		return
	}
	if s.aborting {
		return
	}
	li := s.lock(unsafe.Pointer(m))
	li.owner = nil
	m.Unlock()
	s.wakeLockWaiters(uintptr(unsafe.Pointer(m)))
	s.yield(site)
}

// RLock replaces (*sync.RWMutex).RLock.
func RLock(m *sync.RWMutex, site string) {
	s := active
	if s == nil {
		m.RLock()
		return
	}
	if s.aborting {
		return
	}
	s.yield(site)
	li := s.lock(unsafe.Pointer(m))
	for li.owner != nil || li.wWaiting > 0 || !m.TryRLock() {
		s.park(s.cur, bRWRead, uintptr(unsafe.Pointer(m)), site)
	}
	li.readers++
}

// RUnlock replaces (*sync.RWMutex).RUnlock.
func RUnlock(m *sync.RWMutex, site string) {
	s := active
	if s == nil {
		m.RUnlock()
		return
	}
	if s.aborting {
		return
	}
	li := s.lock(unsafe.Pointer(m))
	li.readers--
	m.RUnlock()
	s.wakeLockWaiters(uintptr(unsafe.Pointer(m)))
	s.yield(site)
}

// ---------------------------------------------------------------------------------------------
// WaitGroup

type wgInfo struct{ n int }

func (s *Sim) wg(w *sync.WaitGroup) *wgInfo {
	k := uintptr(unsafe.Pointer(w))
	i := s.wgs[k]
	if i == nil {
		i = &wgInfo{}
		s.wgs[k] = i
	}
	return i
}

// WGAdd replaces (*sync.WaitGroup).Add.
func WGAdd(w *sync.WaitGroup, n int, site string) {
	s := active
	if s == nil {
		w.Add(n)
		return
	}
	if s.aborting {
		return
	}
	i := s.wg(w)
	i.n += n
	if i.n < 0 {
		panic("sync: negative WaitGroup counter")
	}
	if i.n == 0 {
		k := uintptr(unsafe.Pointer(w))
		for _, o := range s.tasks {
			if o.state == tBlocked && o.bkind == bWaitGroup && o.bobj == k {
				o.state = tRunnable
			}
		}
	}
	s.yield(site)
}

// WGDone replaces (*sync.WaitGroup).Done.
func WGDone(w *sync.WaitGroup, site string) { WGAdd(w, -1, site) }

// WGWait replaces (*sync.WaitGroup).Wait.
func WGWait(w *sync.WaitGroup, site string) {
	s := active
	if s == nil {
		w.Wait()
		return
	}
	if s.aborting {
		return
	}
	s.yield(site)
	i := s.wg(w)
	for i.n > 0 {
		s.park(s.cur, bWaitGroup, uintptr(unsafe.Pointer(w)), site)
	}
}

// ---------------------------------------------------------------------------------------------
// Once

type onceInfo struct {
	done    bool
	running bool
}

// OnceDo replaces (*sync.Once).Do.
func OnceDo(o *sync.Once, f func(), site string) {
	s := active
	if s == nil {
		o.Do(f)
		return
	}
	if s.aborting {
		return
	}
	k := uintptr(unsafe.Pointer(o))
	i := s.onces[k]
	if i == nil {
		i = &onceInfo{}
		s.onces[k] = i
	}
	s.yield(site)
	for i.running {
		s.park(s.cur, bOnce, k, site)
	}
	if i.done {
		return
	}
	i.running = true
	defer func() {
		i.running = false
		i.done = true
		for _, t := range s.tasks {
			if t.state == tBlocked && t.bkind == bOnce && t.bobj == k {
				t.state = tRunnable
			}
		}
	}()
	f()
}

// ---------------------------------------------------------------------------------------------
// sync.Map: every operation is a scheduling point; the operations themselves run on the real map
// (they are atomic between yields, as the real ones are linearizable). Range snapshots the
// entries and visits them in a deterministic order rotated by a seeded choice.

type SyncMapW struct{ m *sync.Map }

func SyncMap(m *sync.Map, site string) SyncMapW {
	if s := active; s != nil && !s.aborting {
		s.yield(site)
	}
	return SyncMapW{m}
}

func noteAnyKey(k any) {
	if k == nil || active == nil {
		return
	}
	switch reflect.ValueOf(k).Kind() {
	case reflect.Pointer, reflect.Chan, reflect.UnsafePointer:
		NoteKey(k)
	}
}

func (w SyncMapW) Load(k any) (any, bool) { return w.m.Load(k) }
func (w SyncMapW) Store(k, v any)         { noteAnyKey(k); w.m.Store(k, v) }
func (w SyncMapW) LoadOrStore(k, v any) (any, bool) {
	noteAnyKey(k)
	return w.m.LoadOrStore(k, v)
}
func (w SyncMapW) LoadAndDelete(k any) (any, bool) { return w.m.LoadAndDelete(k) }
func (w SyncMapW) Delete(k any)                    { w.m.Delete(k) }
func (w SyncMapW) Swap(k, v any) (any, bool)       { noteAnyKey(k); return w.m.Swap(k, v) }
func (w SyncMapW) CompareAndSwap(k, o, n any) bool { return w.m.CompareAndSwap(k, o, n) }
func (w SyncMapW) CompareAndDelete(k, o any) bool  { return w.m.CompareAndDelete(k, o) }
func (w SyncMapW) Clear()                          { w.m.Clear() }

func (w SyncMapW) Range(f func(k, v any) bool) {
	s := active
	if s == nil || s.aborting {
		w.m.Range(f)
		return
	}
	snap := map[any]any{}
	w.m.Range(func(k, v any) bool { snap[k] = v; return true })
	if len(snap) == 0 {
		return
	}
	keys := sortedKeys(s, snap)
	if n := len(keys); n > 1 {
		rot := s.Choose(SSched, n)
		keys = append(append([]any{}, keys[rot:]...), keys[:rot]...)
	}
	for _, k := range keys {
		if v, ok := w.m.Load(k); ok {
			if !f(k, v) {
				return
			}
		}
	}
}

// PoolGet and PoolPut replace (*sync.Pool).Get and Put in woven code: one free list per pool
// (newest, oldest or a fresh object comes back, by a seeded choice), owned by the running simulation (objects do not survive into the next run, as
// they would not survive a collection), so that what Get returns is a function of the schedule.
func PoolGet(p *sync.Pool) any {
	s := active
	if s == nil || s.aborting {
		return p.Get()
	}
	if st := s.pools[p]; len(st) > 0 {
		// which object comes back is the runtime's choice (the caller's own cache, another
		// processor's, or none at all after a collection): a seeded choice here
		switch s.Choose(SSched, 4) {
		case 2:
			x := st[0]
			s.pools[p] = append(st[:0:0], st[1:]...)
			return x
		case 3:
			if p.New != nil {
				return p.New()
			}
		}
		x := st[len(st)-1]
		s.pools[p] = st[:len(st)-1]
		return x
	}
	if p.New != nil {
		return p.New()
	}
	return nil
}

func PoolPut(p *sync.Pool, x any) {
	s := active
	if s == nil || s.aborting {
		p.Put(x)
		return
	}
	if x == nil {
		return
	}
	if s.pools == nil {
		s.pools = map[*sync.Pool][]any{}
	}
	s.pools[p] = append(s.pools[p], x)
}
