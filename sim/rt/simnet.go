package zzsimrt

import (
	"errors"
	"io"
	"net"
	"os"
	"time"
)

// SimConn is one endpoint of an in-memory, simulator-driven connection (a stand-in for a TCP
// socket). Reads, writes and deadlines park in the scheduler; delivery is chunked by seeded
// choices; a full peer buffer makes Write block (slow consumer) until the write deadline.
type SimConn struct {
	name     string
	peer     *SimConn
	buf      []byte // bytes written by the peer, not yet read
	capacity int
	closed   bool // this endpoint was closed locally
	peerGone bool // the peer endpoint was closed
	rd, wd   time.Time
	rcond    *Cond // signalled when buf grows, on close, on deadline change
	wcond    *Cond // signalled when buf of the peer shrinks
	stalled  bool  // reader side refuses to consume (harness-controlled slow consumer)
}

type simAddr string

func (a simAddr) Network() string { return "sim" }
func (a simAddr) String() string  { return string(a) }

// NewSimConnPair returns two connected endpoints; capacity is the receive buffer of each side.
func NewSimConnPair(name string, capacity int) (client, server *SimConn) {
	if capacity <= 0 {
		capacity = 64 << 10
	}
	a := &SimConn{name: name + ":client", capacity: capacity, rcond: NewCond("simnet.read"), wcond: NewCond("simnet.write")}
	b := &SimConn{name: name + ":server", capacity: capacity, rcond: NewCond("simnet.read"), wcond: NewCond("simnet.write")}
	a.peer, b.peer = b, a
	return a, b
}

type timeoutErr struct{}

func (timeoutErr) Error() string   { return "i/o timeout" }
func (timeoutErr) Timeout() bool   { return true }
func (timeoutErr) Temporary() bool { return true }
func (timeoutErr) Unwrap() error   { return os.ErrDeadlineExceeded }

var errClosedConn = errors.New("use of closed network connection")

func (c *SimConn) Read(p []byte) (int, error) {
	if s := active; s != nil && !s.aborting {
		s.yield("simnet.Read")
	}
	for {
		if c.closed {
			return 0, errClosedConn
		}
		if len(c.buf) > 0 {
			n := len(p)
			if n > len(c.buf) {
				n = len(c.buf)
			}
			// seeded short reads: the bytes of one frame may arrive in pieces
			if s := active; s != nil && !s.aborting && n > 1 && s.Chance(SFault, 150) {
				n = 1 + s.Choose(SFault, n-1)
				s.Fault("net-short-read")
			}
			copy(p, c.buf[:n])
			c.buf = c.buf[n:]
			c.peer.wcond.Signal()
			return n, nil
		}
		if c.peerGone {
			return 0, io.EOF
		}
		if !c.rd.IsZero() && !c.rd.After(time.Now()) {
			return 0, timeoutErr{}
		}
		if active == nil || active.aborting {
			return 0, io.EOF
		}
		c.rcond.Wait(c.rd, c.name)
	}
}

func (c *SimConn) Write(p []byte) (int, error) {
	if s := active; s != nil && !s.aborting {
		s.yield("simnet.Write")
	}
	written := 0
	for len(p) > 0 {
		if c.closed {
			return written, errClosedConn
		}
		if c.peerGone || c.peer.closed {
			return written, errors.New("write: broken pipe")
		}
		room := c.peer.capacity - len(c.peer.buf)
		if room <= 0 {
			if !c.wd.IsZero() && !c.wd.After(time.Now()) {
				return written, timeoutErr{}
			}
			if active == nil || active.aborting {
				return written, errClosedConn
			}
			c.wcond.Wait(c.wd, c.name)
			continue
		}
		n := len(p)
		if n > room {
			n = room
		}
		c.peer.buf = append(c.peer.buf, p[:n]...)
		p = p[n:]
		written += n
		c.peer.rcond.Signal()
	}
	return written, nil
}

// Close closes this endpoint; the peer sees EOF after draining what was already delivered.
func (c *SimConn) Close() error {
	if c.closed {
		return errClosedConn
	}
	c.closed = true
	c.peer.peerGone = true
	c.rcond.Signal()
	c.wcond.Signal()
	c.peer.rcond.Signal()
	c.peer.wcond.Signal()
	return nil
}

// Closed reports whether this endpoint has been closed locally.
func (c *SimConn) Closed() bool { return c.closed }

func (c *SimConn) LocalAddr() net.Addr  { return simAddr(c.name) }
func (c *SimConn) RemoteAddr() net.Addr { return simAddr(c.peer.name) }

func (c *SimConn) SetDeadline(t time.Time) error {
	c.rd, c.wd = t, t
	c.rcond.Signal()
	c.wcond.Signal()
	return nil
}

func (c *SimConn) SetReadDeadline(t time.Time) error {
	c.rd = t
	c.rcond.Signal()
	return nil
}

func (c *SimConn) SetWriteDeadline(t time.Time) error {
	c.wd = t
	c.wcond.Signal()
	return nil
}

// Pending returns how many bytes wait to be read on this endpoint.
func (c *SimConn) Pending() int { return len(c.buf) }
