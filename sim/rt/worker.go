package zzsimrt

import (
	"bufio"
	"encoding/json"
	"flag"
	"fmt"
	"os"
	"strconv"
	"strings"
	"testing"
	"time"
)

// Worker protocol between bin/vcheck (supervisor) and the woven test binary:
//
//	worker.test -test.run '^TestSim$' -sim.prop C20 -sim.idx a:b -sim.base <VERIF_SEED> -sim.tier quick -sim.out file.ndjson
//	worker.test -test.run '^TestSim$' -sim.prop C20 -sim.replay file.json -sim.out file.ndjson
//
// One NDJSON record per run.
var (
	flagProp    = flag.String("sim.prop", "", "property id")
	flagIdx     = flag.String("sim.idx", "0:1", "run index range a:b")
	flagBase    = flag.Uint64("sim.base", 1, "base seed (VERIF_SEED)")
	flagTier    = flag.String("sim.tier", "quick", "quick | thorough")
	flagOut     = flag.String("sim.out", "", "NDJSON output file (default stdout)")
	flagReplay  = flag.String("sim.replay", "", "replay file")
	flagSamples = flag.Int("sim.samples", 0, "number of runs whose notes (samples) are emitted")
	flagDeadline = flag.Int64("sim.deadline", 0, "unix seconds after which no new run is started")
	flagKnobs   = flag.String("sim.knobs", "", "comma separated k=v overrides handed to the harness")
	flagVerbose = flag.Bool("sim.v", false, "print log tail of every run")
)

// Params is what a harness sees besides the *Sim.
type Params struct {
	Prop  string
	Tier  string
	Index uint64
	Seed  uint64
	Knobs map[string]string
	Replaying bool
}

// Knob returns an integer override or def.
func (p *Params) Knob(name string, def int) int {
	if v, ok := p.Knobs[name]; ok {
		if n, err := strconv.Atoi(v); err == nil {
			return n
		}
	}
	return def
}

// Record is one NDJSON line.
type Record struct {
	Prop     string         `json:"prop"`
	Index    uint64         `json:"idx"`
	First    uint64         `json:"first"` // first run index executed by this worker process
	Seed     uint64         `json:"seed"`
	OK       bool           `json:"ok"`
	Class    string         `json:"class,omitempty"`
	Site     string         `json:"site,omitempty"`
	Msg      string         `json:"msg,omitempty"`
	Infra    string         `json:"infra,omitempty"`
	Strategy string         `json:"strategy"`
	Result
	WallUS   int64          `json:"wall_us"`
	Tapes    *Tapes         `json:"tapes,omitempty"`
	Log      []string       `json:"log,omitempty"`
}

// ReplayFile is the on-disk format of /verif/replays/*.json.
type ReplayFile struct {
	Property  string            `json:"property"`
	Seed      uint64            `json:"seed"`
	Index     uint64            `json:"index"`
	Base      uint64            `json:"base_seed"`
	Tier      string            `json:"tier"`
	Knobs     map[string]string `json:"knobs,omitempty"`
	Tapes     Tapes             `json:"tapes"`
	Strict    bool              `json:"strict"`
	Signature string            `json:"signature"`
	Message   string            `json:"message"`
	LogTail   []string          `json:"log_tail,omitempty"`
	Shrink    map[string]any    `json:"shrink,omitempty"`
	Command   string            `json:"replay_command,omitempty"`
}

// SeedFor derives the seed of run idx from the base seed (splitmix64).
func SeedFor(base, idx uint64) uint64 {
	z := base*0x9e3779b97f4a7c15 + idx + 0x632be59bd9b4e019
	z ^= z >> 30
	z *= 0xbf58476d1ce4e5b9
	z ^= z >> 27
	z *= 0x94d049bb133111eb
	z ^= z >> 31
	return z
}

// MetaConfig derives the scheduler configuration of a run from its seed (swarm: every run gets
// its own strategy and preemption rate).
func MetaConfig(seed uint64) Config {
	r := seed
	next := func(n uint64) uint64 {
		r ^= r << 13
		r ^= r >> 7
		r ^= r << 17
		return (r >> 11) % n
	}
	cfg := Config{Seed: seed}
	switch next(10) {
	case 0, 1, 2, 3:
		cfg.Strategy = StratRandom
		cfg.SwitchPermille = []int{30, 100, 300, 600, 1000}[next(5)]
	case 4, 5, 6:
		cfg.Strategy = StratPCT
		cfg.PCTDepth = 1 + int(next(3))
		cfg.PCTSteps = []int{50, 200, 1000}[next(3)]
	case 7:
		cfg.Strategy = StratRunBlock
	default:
		cfg.Strategy = StratRR
		cfg.Quantum = 2 + int(next(8))
	}
	if next(4) == 0 {
		cfg.ClockJumpPermille = 100
	}
	return cfg
}

// HarnessFunc is the body of one simulated run for a property.
type HarnessFunc func(s *Sim, p *Params)

// WorkerMain is called by the injected TestSim of every harness.
func WorkerMain(t *testing.T, harnesses map[string]HarnessFunc) {
	h, ok := harnesses[*flagProp]
	if !ok {
		t.Skipf("no simulation requested (-sim.prop=%q)", *flagProp)
		return
	}
	out := os.Stdout
	if *flagOut != "" {
		f, err := os.OpenFile(*flagOut, os.O_CREATE|os.O_WRONLY|os.O_APPEND, 0o644)
		if err != nil {
			t.Fatalf("sim.out: %v", err)
		}
		defer f.Close()
		out = f
	}
	w := bufio.NewWriter(out)
	defer w.Flush()
	knobs := map[string]string{}
	for _, kv := range strings.Split(*flagKnobs, ",") {
		if i := strings.IndexByte(kv, '='); i > 0 {
			knobs[kv[:i]] = kv[i+1:]
		}
	}
	emit := func(rec *Record) {
		b, err := json.Marshal(rec)
		if err != nil {
			b, _ = json.Marshal(&Record{Prop: rec.Prop, Index: rec.Index, Seed: rec.Seed, Infra: "marshal: " + err.Error()})
		}
		w.Write(b)
		w.WriteByte('\n')
		w.Flush()
	}
	runOne := func(idx, seed uint64, rp *ReplayFile, sample bool) *Record {
		cfg := MetaConfig(seed)
		p := &Params{Prop: *flagProp, Tier: *flagTier, Index: idx, Seed: seed, Knobs: knobs}
		if rp != nil {
			cfg.Replay = &rp.Tapes
			cfg.Strict = rp.Strict
			p.Replaying = true
			if rp.Tier != "" {
				p.Tier = rp.Tier
			}
			for k, v := range rp.Knobs {
				if _, set := knobs[k]; !set {
					knobs[k] = v
				}
			}
		}
		t0 := time.Now()
		res := Run(t, cfg, func(s *Sim) { h(s, p) })
		rec := &Record{Prop: *flagProp, Index: idx, Seed: seed, Strategy: cfg.Strategy.String(), Result: res, WallUS: time.Since(t0).Microseconds()}
		rec.OK = res.Violation == nil && res.Infra == ""
		if v := res.Violation; v != nil {
			rec.Class, rec.Site, rec.Msg = v.Class, v.Site, v.Msg
			tp := res.Tapes
			rec.Tapes = &tp
			rec.Log = res.LogTail
		}
		rec.Infra = res.Infra
		if !sample && rec.OK {
			rec.Result.Notes = nil
		}
		if *flagVerbose {
			for _, l := range res.LogTail {
				fmt.Fprintln(os.Stderr, l)
			}
		}
		return rec
	}
	if *flagReplay != "" {
		b, err := os.ReadFile(*flagReplay)
		if err != nil {
			t.Fatalf("replay: %v", err)
		}
		var rp ReplayFile
		if err := json.Unmarshal(b, &rp); err != nil {
			t.Fatalf("replay: %v", err)
		}
		emit(runOne(rp.Index, rp.Seed, &rp, true))
		return
	}
	var a, b uint64
	if _, err := fmt.Sscanf(*flagIdx, "%d:%d", &a, &b); err != nil {
		t.Fatalf("sim.idx: %v", err)
	}
	for i := a; i < b; i++ {
		if *flagDeadline > 0 && time.Now().Unix() >= *flagDeadline {
			break
		}
		rec := runOne(i, SeedFor(*flagBase, i), nil, int(i-a) < *flagSamples)
		rec.First = a
		emit(rec)
		if rec.Infra != "" {
			// the process may hold leaked goroutines after a bubble panic: let the supervisor restart us
			w.Flush()
			os.Exit(3)
		}
	}
}
