// weavecli runs the weaver alone (debugging aid): weavecli <out> <pkgconfig.json | ./pkg/x[,touch][,l2]>...
package main

import (
	"encoding/json"
	"fmt"
	"os"
	"strings"

	"verif/sim/weave"
)

func main() {
	cfg := weave.Config{Repo: "/repo", Out: os.Args[1]}
	for _, a := range os.Args[2:] {
		if strings.HasSuffix(a, ".json") {
			b, err := os.ReadFile(a)
			if err != nil {
				panic(err)
			}
			var pcs []weave.PkgConfig
			if err := json.Unmarshal(b, &pcs); err != nil {
				panic(err)
			}
			cfg.Packages = append(cfg.Packages, pcs...)
			continue
		}
		parts := strings.Split(a, ",")
		pc := weave.PkgConfig{Path: parts[0]}
		for _, o := range parts[1:] {
			switch o {
			case "touch":
				pc.Touch = true
			case "l2":
				pc.L2Files = []string{"*"}
			}
		}
		cfg.Packages = append(cfg.Packages, pc)
	}
	ov, st, err := weave.Weave(cfg)
	if err != nil {
		fmt.Fprintln(os.Stderr, "weave:", err)
		os.Exit(2)
	}
	weave.WriteOverlay(cfg.Out+"/overlay.json", ov)
	for _, k := range weave.SortedKeys(st.Rewrites) {
		fmt.Printf("%-20s %d\n", k, st.Rewrites[k])
	}
	fmt.Println("files", st.Files)
}
