package main

import (
	"encoding/json"
	"os"
	"path/filepath"
)

func writeEvidence(e *environ, spec *propSpec, tier string, base uint64, bt *batch, units []*unit, wall, buildSecs, simSecs float64, unlisted int, knownSeen map[string]int, shrink []map[string]any, infra []string) {
	samples := bt.samples
	if len(samples) == 0 {
		samples = []any{"no sample recorded (no run completed)"}
	}
	runsPerHour := 0.0
	if simSecs > 0 {
		runsPerHour = float64(bt.runs) / simSecs * 3600
	}
	cov := map[string]any{
		"evaluations":         bt.runs,
		"distinct_nontrivial": len(bt.fps),
		"nontrivial_runs":     bt.nontriv,
		"rule":                spec.Rule,
		"samples":             samples,
		"runs_per_hour":       runsPerHour,
		"scheduler_steps":     bt.steps,
		"simulated_seconds":   float64(bt.simNS) / 1e9,
		"faults_fired":        bt.faults,
		"fault_kinds_available": spec.FaultKinds,
		"probes_hit":          bt.probes,
		"strategy_mix":        bt.strategy,
		"max_tasks_in_a_run":  bt.maxTasks,
		"components":          spec.Components,
		"known_findings_seen": knownSeen,
		"shrink":              shrink,
		"infrastructure_trouble": infra,
		"build_seconds":       buildSecs,
		"simulation_seconds":  simSecs,
		"exhaustive":          false,
	}
	if b := units[0].b; b != nil && b.stats != nil {
		cov["weave"] = b.stats
	}
	if len(units) > 1 {
		// a property decided by several worker binaries: one entry per part
		rule := spec.Rule
		comps := append([]component{}, spec.Components...)
		faultKinds := append([]string{}, spec.FaultKinds...)
		var parts []map[string]any
		for i, u := range units {
			pe := map[string]any{"harness": u.spec.ID, "test_package": u.spec.TestPkg, "workers": u.workers, "runs": bt.perProp[u.spec.ID]}
			if u.b != nil && u.b.stats != nil {
				pe["weave"] = u.b.stats
			}
			parts = append(parts, pe)
			if i == 0 {
				continue
			}
			rule += " || part " + u.spec.ID + ": " + u.spec.Rule
			for _, c := range u.spec.Components {
				c.Name = u.spec.ID + ": " + c.Name
				comps = append(comps, c)
			}
			for _, k := range u.spec.FaultKinds {
				dup := false
				for _, have := range faultKinds {
					dup = dup || have == k
				}
				if !dup {
					faultKinds = append(faultKinds, k)
				}
			}
		}
		cov["rule"] = rule
		cov["components"] = comps
		cov["fault_kinds_available"] = faultKinds
		cov["parts"] = parts
	}
	ev := map[string]any{
		"property_id": spec.ID,
		"tier":        tier,
		"seed":        int64(base & 0x7fffffffffffffff),
		"level":       "exploration",
		"coverage":    cov,
		"assumptions": append(append([]string{}, commonAssumptions...), spec.Assumptions...),
		"wall_s":      wall,
		"violations":  unlisted,
	}
	dir := filepath.Join(e.verif, "evidence")
	os.MkdirAll(dir, 0o755)
	buf, _ := json.MarshalIndent(ev, "", " ")
	os.WriteFile(filepath.Join(dir, spec.ID+".json"), buf, 0o644)
}
