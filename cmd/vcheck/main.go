// vcheck is the glyphsim supervisor: weave → build → fan out worker processes → triage →
// shrink → replay file → evidence → exit code.
//
//	vcheck <property> <quick|thorough>         run a check
//	vcheck <property> --replay <file>          re-execute a replay file against the current tree
//	vcheck <property> --selftest               determinism self-test (many seeds × 2 × GOMAXPROCS)
//	vcheck <property> --weavetest              the woven packages' own unit tests against the woven build
//
// Exit codes: 0 property held on everything explored (known findings possibly listed),
// 1 at least one unlisted violation (a line "VIOLATION property=<id> replay=<path>" is printed),
// 2 infrastructure trouble (weave/build failure, worker stall, replay divergence) — never 1.
package main

import (
	"fmt"
	"os"
	"strconv"
	"time"
)

func main() {
	if len(os.Args) < 3 {
		fmt.Fprintln(os.Stderr, "usage: vcheck <property> <quick|thorough|--replay file|--selftest>")
		os.Exit(2)
	}
	prop := os.Args[1]
	spec, ok := specs[prop]
	if !ok {
		fmt.Fprintf(os.Stderr, "vcheck: unknown property %q\n", prop)
		os.Exit(2)
	}
	env := newEnv()
	base := uint64(1)
	if v := os.Getenv("VERIF_SEED"); v != "" {
		if n, err := strconv.ParseUint(v, 10, 64); err == nil {
			base = n
		} else if n, err := strconv.ParseInt(v, 10, 64); err == nil {
			base = uint64(n)
		}
	}
	start := time.Now()
	switch os.Args[2] {
	case "--replay":
		if len(os.Args) < 4 {
			fmt.Fprintln(os.Stderr, "vcheck: --replay needs a file")
			os.Exit(2)
		}
		os.Exit(cmdReplay(env, spec, os.Args[3]))
	case "--selftest":
		rc := cmdSelftest(env, spec, base)
		for _, p := range spec.Parts {
			if r := cmdSelftest(env, p, base); r > rc {
				rc = r
			}
		}
		os.Exit(rc)
	case "--weavetest":
		rc := cmdWeavetest(env, spec)
		for _, p := range spec.Parts {
			if r := cmdWeavetest(env, p); r > rc {
				rc = r
			}
		}
		os.Exit(rc)
	case "quick", "thorough":
		tier := os.Args[2]
		if t := os.Getenv("VERIF_TIER"); t == "quick" || t == "thorough" {
			_ = t // the explicit argument wins; VERIF_TIER is informational
		}
		os.Exit(cmdCheck(env, spec, tier, base, start))
	default:
		fmt.Fprintf(os.Stderr, "vcheck: unknown mode %q\n", os.Args[2])
		os.Exit(2)
	}
}
