package main

import "verif/sim/weave"

type extraPkg struct {
	From string // directory under /verif
	To   string // directory under /repo (overlay-only)
}

type replaceModule struct {
	Path string // module path
	Dir  string // directory below GOMODCACHE
}

type component struct {
	Name string `json:"component"`
	Mode string `json:"mode"` // real-woven | real-unwoven | stub | not-run
	Note string `json:"note,omitempty"`
}

type propSpec struct {
	ID           string
	Title        string
	TestPkg      string // package directory (relative to /repo) the worker binary is built from
	HarnessDir   string // directory under /verif/harness
	HarnessExtra []string // further harness directories (shared helpers)
	Weave        []weave.PkgConfig
	ExtraPkgs    []extraPkg
	ReplaceModules []replaceModule // dependencies that are woven: copied out of the module cache and replaced in the scratch go.mod
	QuickSecs    int // wall-clock budget of the simulation phase
	ThoroughSecs int
	QuickRuns    int // upper bound on runs (0 = budget only)
	ThoroughRuns int
	Chunk        int // run indexes per worker invocation
	Workers      int // 0 = 16
	Rule         string
	Components   []component
	Assumptions  []string
	FaultKinds   []string // fault kinds this harness can inject (for the evidence table)
	Parts        []*propSpec // further worker binaries deciding the same property (own harness, package and weave); Workers = their share of the 16
}

var commonAssumptions = []string{
	"the weaver preserves semantics apart from adding scheduling points (checked by running the package's own tests against the woven build in --selftest)",
	"blocking semantics of sync.Mutex/RWMutex/WaitGroup/channels/select are modelled by the simulator runtime following the Go specification",
	"code not woven (stdlib and third-party dependencies) executes atomically between simulator seams",
	"sampling, not enumeration: a clean batch is evidence, not proof",
}

var glyphServerWeave = []weave.PkgConfig{
	{Path: "./cmd/glyph", Touch: true},
	{Path: "./pkg/server", Touch: true},
	{Path: "./pkg/websocket"},
	{Path: "./pkg/interpreter"},
	{Path: "./pkg/vm"},
}

var specs = map[string]*propSpec{
	"C08": {
		ID: "C08", Title: "concurrent requests do not interfere",
		TestPkg: "cmd/glyph", HarnessDir: "C08", HarnessExtra: []string{"glyphcommon"},
		Weave: []weave.PkgConfig{
			{Path: "./cmd/glyph", Touch: true, TouchLocalMaps: true},
			{Path: "./pkg/server", Touch: true},
			{Path: "./pkg/websocket"},
			{Path: "./pkg/interpreter", Touch: true, TouchLocalMaps: true, L1: []string{"(*Interpreter).EvaluateExpression", "(*Interpreter).ExecuteStatement"}},
			{Path: "./pkg/vm", Touch: true, L1: []string{"(*VM).step"}},
			{Path: "./pkg/database", Touch: true, TouchLocalMaps: true},
			{Path: "./pkg/redis", Touch: true, TouchLocalMaps: true},
			{Path: "./pkg/mongodb", Touch: true, TouchLocalMaps: true},
			{Path: "./pkg/httpclient", Touch: true, CallReplace: map[string]string{"net/http.Client.Do": "SimClientDo"}},
		},
		QuickSecs: 50, ThoroughSecs: 600, Chunk: 25, // small chunks: every worker process start is a cold start (lazily built package-level state is built under contention only then)
		Rule: "each run is one of: (S-pure) 2-8 request tasks, 1-4 requests each, on one long-lived server built by the real pipeline from a corpus of routes without providers (deep recursion, generic functions instantiated at different types, loops, strings, async blocks, query parameters, typed input, auth+ratelimit), compiled or interpreter mode, each response compared with the response the same request gets alone on a fresh server; (S-prov) the same with single-operation provider routes (mock database, Redis, MongoDB) plus atomicity invariants; (P) 2-4 tasks calling the mock providers' Go API directly, history checked for linearizability against a fresh mock replaying the candidate order; preemption at evaluation steps (EvaluateExpression, ExecuteStatement, VM.step), locks, atomics and race probes (including values handed to JSON encoders) (the corpus includes a typed route whose object/list literal defaults are mutated in place, and database routes over a list-valued column with a filter the store cannot evaluate, whose panic is contained as net/http contains it); a run is non-trivial if at least two tasks were runnable at once and a preemption happened; distinct = distinct fingerprints (schedule hash combined with workload tape) among those",
		Components: []component{
			{"parser, compiler, setupRoutes, registerRoute/registerCompiledRoute, createHandler (cmd/glyph)", "real-woven", "L0 + race probes"},
			{"pkg/interpreter (one interpreter per server: evalDepth, TypeChecker.typeScope, environments)", "real-woven", "entry yields at EvaluateExpression/ExecuteStatement + race probes"},
			{"pkg/vm (fresh VM per compiled request)", "real-woven", "entry yield at step + race probes"},
			{"pkg/database MockDatabase, pkg/redis MockHandler, pkg/mongodb MockHandler", "real-woven", "L0 + race probes including maps held in locals"},
			{"pkg/server middleware and JSON response encoding", "real-woven", "L0 + race probes + deep read probes before encoding"},
			{"TCP sockets / net/http server loop", "stub", "handler invoked directly with httptest requests"},
			{"real database / Redis / MongoDB servers", "not-run", "the in-memory mocks are what `glyph run` uses without configuration"},
			{"pkg/httpclient Handler behind the http.* builtins (per-call timeout / redirect options)", "real-woven", "L0 + race probes; (*http.Client).Do redirected"},
			{"upstream HTTP servers, http.Client transport", "stub", "simulated upstream: a pure function of the request with simulated latency (5 ms - 40 s); the client's Timeout and redirect policy are honoured as net/http honours them"},
		},
		FaultKinds: []string{"clock-jump", "slow-upstream", "client-gone-at-write"},
	},
	"C19": {
		ID: "C19", Title: "a failed reload never takes the dev server down",
		TestPkg: "cmd/glyph", HarnessDir: "C19", HarnessExtra: []string{"glyphcommon"},
		Weave: []weave.PkgConfig{
			{Path: "./cmd/glyph", Touch: true,
				Replace:     map[string]string{"github.com/fsnotify/fsnotify": weave.RTPath + "/simfsn"},
				CallReplace: map[string]string{"net/http.Server.ListenAndServe": "SimListenAndServe", "net/http.Server.Shutdown": "SimShutdown"}},
			{Path: "./pkg/hotreload", Touch: true, L2Files: []string{"*"}},
			{Path: "./pkg/server"},
			{Path: "./pkg/websocket"},
			{Path: "./pkg/interpreter"},
			{Path: "./pkg/vm"},
		},
		ExtraPkgs: []extraPkg{{From: "sim/simfsn", To: "pkg/zzsimrt/simfsn"}},
		QuickSecs: 45, ThoroughSecs: 600, Chunk: 50,
		Rule: "each run is either (A) `glyph dev`: the real hotReloadManager started on a valid file, then 1-12 edits drawn from {valid version k, parse error, semantic error, empty, deleted, deleted-and-recreated}, saves delivered whole or torn into two writes with an event in between, duplicated / extra / spurious (chmod) / create events, waits from 0 to 3 s around the 100 ms debounce, a probe request after every edit and a final valid edit; or (B) the library ReloadManager with its polling FileWatcher over real files, the real parser+compiler behind CompilerInterface, a recording ServerInterface with injected Reload failures, edits spaced around the 500 ms poll and 200 ms debounce; in a third of the dev runs browser tabs hold the live-reload stream open across reloads; saves are stamped by the harness (restored backups carry older or identical modification times); in a third of the library runs a compilation takes 0-900 ms of simulated time; a run is non-trivial if a fault fired (torn save, extra/spurious event, injected reload failure, clock jump) or two tasks were runnable at once with a preemption; distinct = distinct fingerprints (schedule hash combined with workload and fault tapes) among those",
		Components: []component{
			{"cmd/glyph hotReloadManager.startServer / startDevServerInternal / watchForChanges (debounce) / reload, parseSource, setupRoutes, createHandler", "real-woven", "L0 + race probes"},
			{"pkg/hotreload FileWatcher (hashing real files), ReloadManager.handleChanges", "real-woven", "yield before every statement + race probes"},
			{"source file", "real", "a real file in a per-run temporary directory, written by the harness"},
			{"fsnotify / inotify", "stub", "sim/simfsn: the harness emits the events"},
			{"listening socket, http.Server.ListenAndServe/Shutdown", "stub", "simulated port table (address in use, refused connections, shutdown waits for in-flight requests)"},
			{"CompilerInterface / ServerInterface of the library manager", "stub", "harness implementations: real parser+compiler, recording server"},
			{"clock, timers", "stub", "testing/synctest fake clock"},
		},
		FaultKinds: []string{"torn-save", "duplicate-or-extra-event", "spurious-event", "reload-fails", "request-in-flight-across-reload", "slow-compile", "compile-stalls", "file-absent-when-debounce-fires", "clock-jump", "typo-saved-and-undone-as-debounce-fires", "watcher-error"},
	},
	"C16": {
		ID: "C16", Title: "WebSocket rooms stay consistent under concurrency",
		TestPkg: "pkg/websocket", HarnessDir: "C16",
		Weave: []weave.PkgConfig{
			{Path: "./pkg/websocket", Touch: true, Replace: map[string]string{"crypto/rand": weave.RTPath + "/simrand"}},
			// gorilla serialises writers with a channel used as a mutex; woven so that a task waiting
			// for it parks in the scheduler instead of blocking the whole simulation
			{Path: "github.com/gorilla/websocket", Replace: map[string]string{"crypto/rand": weave.RTPath + "/simrand"}},
		},
		ExtraPkgs:      []extraPkg{{From: "sim/simrand", To: "pkg/zzsimrt/simrand"}},
		ReplaceModules: []replaceModule{{Path: "github.com/gorilla/websocket", Dir: "github.com/gorilla/websocket@v1.5.3"}},
		QuickSecs: 45, ThoroughSecs: 600, Chunk: 100,
		Rule: "each run draws hub/room limits (1-4 / 1-3), queue size 1-4 and strategy, heartbeat and reconnection settings, then 2-6 clients (real gorilla client framing over a simulated connection: connect, join/leave/broadcast/ping/custom-event frames, garbage, orderly close or abrupt vanish, small receive buffers = slow consumers) and 0-3 actor tasks calling the public API (Connection.JoinRoom/LeaveRoom/Send/Close, Hub.Broadcast/BroadcastToRoom, RestoreConnectionState), with custom handlers that run on the hub loop; hot-room, sparse-room (a room that keeps becoming empty while another connection joins it) and post-disconnect send phases; a run is non-trivial if at least two tasks were runnable at once and a preemption happened, or a fault (client close/vanish, server close, short read, clock jump) fired; distinct = distinct fingerprints (schedule hash combined with workload and fault tapes) among those",
		Components: []component{
			{"pkg/websocket Server.HandleWebSocket, Hub.Run, Connection ReadPump/WritePump/Send/JoinRoom/LeaveRoom/Close, RoomManager, default and custom handlers, metrics", "real-woven", "L0 + race probes"},
			{"gorilla/websocket upgrade, framing, control frames (client and server side)", "real-woven", "L0 (woven from the module cache through the overlay): its channel-mutex and timers park in the scheduler"},
			{"TCP connection", "stub", "in-memory SimConn pair: reads/writes/deadlines park in the scheduler, seeded short reads, bounded receive buffer"},
			{"http.ResponseWriter/Hijacker", "stub", "harness writer handing the simulated connection to the upgrader"},
			{"crypto/rand (connection ids)", "stub", "seeded stream"},
			{"clock, tickers, deadlines", "stub", "testing/synctest fake clock"},
		},
		FaultKinds: []string{"client-close", "client-vanish", "server-close", "net-short-read", "clock-jump", "unexpected-frame"},
		Parts: []*propSpec{{
			ID: "C16g", Title: "WebSocket rooms stay consistent under concurrency (language level)",
			TestPkg: "cmd/glyph", HarnessDir: "C16g", HarnessExtra: []string{"glyphcommon"},
			Weave: []weave.PkgConfig{
				{Path: "./cmd/glyph", Touch: true},
				{Path: "./pkg/server"},
				{Path: "./pkg/websocket", Touch: true, Replace: map[string]string{"crypto/rand": weave.RTPath + "/simrand"}},
				{Path: "./pkg/interpreter"},
				{Path: "./pkg/vm"},
				{Path: "github.com/gorilla/websocket", Replace: map[string]string{"crypto/rand": weave.RTPath + "/simrand"}},
			},
			ExtraPkgs:      []extraPkg{{From: "sim/simrand", To: "pkg/zzsimrt/simrand"}, {From: "harness/C16g/export", To: "pkg/websocket"}},
			ReplaceModules: []replaceModule{{Path: "github.com/gorilla/websocket", Dir: "github.com/gorilla/websocket@v1.5.3"}},
			Chunk:          50, Workers: 5,
			Rule: "each run generates a Glyph module with `@ ws /room/:room` (and in half the runs `@ ws /lobby`) whose on connect / on message / on disconnect bodies are drawn from variants (connect joins or not; disconnect handler broadcasts and leaves, joins rooms, sends to itself, or only leaves) plus HTTP routes reading hub statistics, builds it with parseSource+setupRoutes, mounts it as `glyph run` does, and drives 2-5 gorilla clients over the simulated network (say / say to another room / join / leave / join-say-leave / broadcast to all / rooms query / server-side close / built-in join_room frame / orderly close / vanish / stalled reader) and 0-2 tasks issuing HTTP requests; non-trivial and distinct as for the main harness",
			Components: []component{
				{"parser, compiler.CompileWebSocketRoute, setupRoutes, registerCompiledWebSocketRoute, executeWebSocketBytecode, createHandler, loggingMiddleware (cmd/glyph)", "real-woven", "L0 + race probes"},
				{"pkg/vm executing the handler bodies, websocket.VMHandler / VMStatsHandler", "real-woven", "L0"},
				{"pkg/websocket Server.HandleWebSocketWithPattern, hub, pumps, rooms (default configuration)", "real-woven", "L0 + race probes"},
				{"gorilla/websocket", "real-woven", "L0"},
				{"http.ServeMux mounting of the WebSocket paths", "real-unwoven", "the loop of startServer is repeated in the harness because startServer does not return the hub"},
				{"TCP connection, ResponseWriter/Hijacker", "stub", "SimConn pair and harness writer"},
			},
			FaultKinds: []string{"client-close", "client-vanish", "server-close", "client-stops-reading", "net-short-read", "clock-jump"},
		}},
	},
	"C14": {
		ID: "C14", Title: "database transactions are all-or-nothing",
		TestPkg: "pkg/database", HarnessDir: "C14",
		QuickSecs: 40, ThoroughSecs: 480, Chunk: 50,
		Rule: "each run generates 1-4 back-to-back transactions of 0-6 statements (insert, update, delete, insert violating a unique constraint, select; callbacks that return or ignore statement errors) and executes the whole sequence once per (fault kind, position): callback error / panic / context cancel / deadline expiry on the fake clock at every statement boundary, nested transaction with a deadline, and driver-level faults from a wrapper around the real sqlite driver (Exec error, ErrBadConn, BeginTx error, Commit error before and after applying, Rollback error) - quick sweeps a seeded subset of kinds, thorough all of them; (callback errors include context.Canceled, context.DeadlineExceeded bare and wrapped, sql.ErrTxDone and driver.ErrBadConn raised while the transaction context is alive) plus one bulk insert with a seeded violating row and, on the Postgres-struct backend, ORM.Transaction flat and nested; after every transaction the table read through a fault-free query must equal the reference map (all effects or none) and a fault-free transaction must succeed within 5 simulated seconds; evaluations = runs (each run = dozens of executions, counted in coverage.executions); a run is non-trivial if at least one fault fired; distinct = distinct fingerprints of workload and fault tapes",
		Components: []component{
			{"pkg/database SQLiteDB/PostgresDB/MySQLDB.Transaction, BulkInsert, ORM.Transaction/Create", "real-unwoven", "driven through their public methods; Postgres/MySQL structs are built over the sqlite handle (their Transaction code is driver-agnostic)"},
			{"database/sql pool and context handling", "real-unwoven", ""},
			{"modernc sqlite (in-memory and file databases)", "real-unwoven", "behind the fault-injecting driver wrapper"},
			{"SQL driver", "stub", "fault-injecting wrapper forwarding to the real driver"},
			{"PostgreSQL / MySQL servers", "not-run", "no network; dialect-specific BulkInsert runs only where SQLite accepts the syntax"},
			{"clock, context deadlines", "stub", "testing/synctest fake clock"},
		},
		FaultKinds: []string{"cb-error", "cb-error-lockwait", "cb-error-deadlock", "cb-error-canceled", "cb-error-deadline", "cb-error-wrapped", "cb-error-txdone", "cb-error-badconn", "cb-panic", "ctx-cancel", "deadline", "nested-deadline", "exec", "badconn", "begin", "commit-before", "commit-after", "rollback", "orm-statement-fault", "caller-gives-up-mid-batch"},
		Assumptions: []string{"no cooperative scheduling is involved: this is a sequential fault-sequence simulation inside a synctest bubble"},
	},
	"C15": {
		ID: "C15", Title: "JIT tiering and caching are invisible",
		TestPkg: "pkg/jit", HarnessDir: "C15",
		Weave:     []weave.PkgConfig{{Path: "./pkg/jit", Touch: true, L2Files: []string{"*"}}},
		QuickSecs: 40, ThoroughSecs: 600, Chunk: 200,
		Rule: "each run draws hot-path threshold and recompile window, then 1-5 tasks issue 3-16 operations each (CompileRoute, CompileRouteWithTypes over a colliding pool of type maps, RecordExecution bursts, CheckAdaptiveRecompilation, RecordDeoptimization, redefine = new version + InvalidateCache/ClearCache, deoptimise = new version + RecordDeoptimization, GetUnit, profiler type usage, clock advances across the window) on three route names with statement-level interleaving; every bytecode handed out is executed on a fresh VM and compared with a fresh OptNone compilation; churn runs keep redefining one route under 2-5 callers, single-caller runs redefine routes in place; the per-name call history is checked for linearizability against a sequential cache specification; a run is non-trivial if at least two tasks were runnable at once and a preemption happened, or a clock advance fired; distinct = distinct fingerprints (schedule hash combined with workload and fault tapes) among those",
		Components: []component{
			{"pkg/jit JITCompiler, SpecializationCache, Profiler, AdaptiveRecompilationTrigger, DeoptimizationTracker", "real-woven", "yield before every statement + race probes"},
			{"pkg/compiler (all optimisation levels), pkg/parser", "real-unwoven", "atomic between seams"},
			{"pkg/vm", "real-unwoven", "oracle executor for every bytecode handed out"},
			{"clock", "stub", "testing/synctest fake clock"},
		},
		FaultKinds: []string{"clock-advance", "clock-jump"},
	},
	"C09": {
		ID: "C09", Title: "async blocks are race-free, deterministic and settle once",
		TestPkg: "cmd/glyph", HarnessDir: "C09", HarnessExtra: []string{"glyphcommon"},
		Weave: []weave.PkgConfig{
			{Path: "./cmd/glyph"},
			{Path: "./pkg/server"},
			{Path: "./pkg/websocket"},
			{Path: "./pkg/interpreter", Touch: true, TouchLocalMaps: true, L1: []string{"(*Interpreter).EvaluateExpression", "(*Interpreter).ExecuteStatement"}, L2Files: []string{"future.go"}},
			{Path: "./pkg/vm", Touch: true, L1: []string{"(*VM).step", "(*VM).execAsync", "(*VM).execAwait"}},
		},
		ExtraPkgs: []extraPkg{{From: "harness/C09/export", To: "pkg/vm"}},
		QuickSecs: 45, ThoroughSecs: 600, Chunk: 100,
		Rule: "each run is one of: (A) 2-6 tasks issuing Resolve/Reject/Cancel/Await*/State/Value/Error on 1-4 shared futures plus All/Race/Any combinators over them, statement-level interleaving; (A') a combinator whose inputs are settled one at a time with a full drain in between (first-settled / first-success / order contracts); (B) a generated async/await route program (1-4 blocks, nesting, loops, parents that keep declaring or assigning, repeated and missing awaits) served by the real pipeline in compiled or interpreter mode, executed once under a non-preemptive reference schedule and 3-6 times under the seeded schedule; (C) one VM reused through Reset for 2-4 generated programs whose blocks are awaited at the end and compared with fresh-VM runs; a run is non-trivial if at least two tasks were runnable at once and a preemption happened; distinct = distinct fingerprints (schedule hash combined with workload tape) among those",
		Components: []component{
			{"pkg/interpreter Future, All/Race/Any, evaluateAsyncExpr/evaluateAwaitExpr, Environment", "real-woven", "future.go statement-level yields, EvaluateExpression/ExecuteStatement entry yields, race probes"},
			{"pkg/vm execAsync/execAwait/FutureValue, step", "real-woven", "entry yields + race probes"},
			{"parser, compiler, setupRoutes, createHandler", "real-woven", "L0"},
			{"TCP sockets / net/http server loop", "stub", "handler invoked directly"},
			{"clock, timers, context deadlines", "stub", "testing/synctest fake clock"},
		},
		FaultKinds: []string{"clock-jump"},
	},
	"C06": {
		ID: "C06", Title: "declared authentication fails closed (stateful facet)",
		TestPkg: "cmd/glyph", HarnessDir: "C06", HarnessExtra: []string{"glyphcommon"},
		Weave:     append(append([]weave.PkgConfig{}, glyphServerWeave...), weave.PkgConfig{Path: "./pkg/apikey", Touch: true, L2Files: []string{"*"}}),
		QuickSecs: 45, ThoroughSecs: 600, Chunk: 100,
		Rule: "each run draws a credential configuration (JWT secret / API keys set, unset or blank; or BasicAuthMiddlewareWithConfig driven directly with small lockout parameters), an execution mode, 1-6 clients and for each a timed sequence of requests (canonical valid credential, none, wrong, empty, prefix only, other scheme, valid credential in the wrong header, credential of the other auth type, forged forwarding headers) with gaps placed around lockout expiry, reset window and cleanup ticks and up to 3 requests in flight; secrets may consist of separators only or contain a comma; one run in 25 first sends bad requests from 10050 distinct clients (table pressure); a run is non-trivial if at least two tasks were runnable at once and a preemption happened, or a fault (request aligned with a cleanup tick, clock jump) fired; distinct = distinct fingerprints (schedule hash combined with workload and fault tapes) among the non-trivial runs",
		Components: []component{
			{"parser, compiler, setupRoutes, createHandler, routeMiddlewares/authMiddleware/apiKeyMiddleware/denyAllMiddleware (cmd/glyph)", "real-woven", "L0"},
			{"pkg/server BasicAuthMiddlewareWithConfig, recordAuthFailure, getClientIP, cleanup goroutine", "real-woven", "L0 + race probes"},
			{"interpreter / VM executing the marker route body", "real-woven", "L0"},
			{"TCP sockets / net/http server loop", "stub", "handler invoked directly with httptest request and recorder"},
			{"clock, tickers", "stub", "testing/synctest fake clock moved only by the simulator"},
			{"pkg/apikey Validator and Middleware", "real-woven", "driven directly (cmd/glyph does not wire it into `+ auth(apikey)` routes): keys issued and revoked at runtime under concurrent requests, statement-level yields + race probes"},
		},
		FaultKinds: []string{"request-at-cleanup-tick", "clock-jump"},
	},
	"C11": {
		ID: "C11", Title: "rate limits bound admitted traffic per client",
		TestPkg: "cmd/glyph", HarnessDir: "C11", HarnessExtra: []string{"glyphcommon"},
		Weave:     glyphServerWeave,
		QuickSecs: 45, ThoroughSecs: 600, Chunk: 100,
		Rule: "each run draws a declared limit (N in 1..200, unit sec/min/hour/day, or the middleware driven directly with trust-proxy settings), an execution mode, 1-5 clients with their own arrival processes (bursts, steady streams at 0.2-3x the rate, on/off, long idle gaps, conforming streams), forged forwarding headers and up to 4 requests in flight, all on the simulated clock; the declaration is spelled bare, quoted, capitalised, upper-case or padded; one run in 16 first admits 10050 one-shot clients (table pressure) and then drives drain-pause-burst clients; a run is non-trivial if at least two tasks were runnable at once and a preemption happened, or a fault fired; distinct = distinct fingerprints (schedule hash combined with workload and fault tapes) among the non-trivial runs",
		Components: []component{
			{"parser, compiler, setupRoutes, createHandler, routeMiddlewares (cmd/glyph)", "real-woven", "L0"},
			{"pkg/server RateLimitMiddleware, getClientIP, cleanup goroutine", "real-woven", "L0 + race probes"},
			{"interpreter / VM executing the marker route body", "real-woven", "L0"},
			{"pkg/websocket hub started by setupRoutes", "real-woven", "idle"},
			{"TCP sockets / net/http server loop", "stub", "handler invoked directly with httptest request and recorder"},
			{"clock, tickers", "stub", "testing/synctest fake clock moved only by the simulator"},
		},
		FaultKinds: []string{"clock-jump", "client-hangs-up-mid-request"},
	},
	"C20": {
		ID: "C20", Title: "the cache behaves as a bounded LRU map",
		TestPkg: "pkg/cache", HarnessDir: "C20",
		Weave:     []weave.PkgConfig{{Path: "./pkg/cache", Touch: true}},
		QuickSecs: 40, ThoroughSecs: 600, Chunk: 400,
		Rule: "each run draws its own cache configuration (capacity, max size, TTL regime, oversize values), mode (sequential history of 5-60 operations checked step by step against the reference LRU model and structural invariants; or 2-4 concurrent callers whose history is checked for linearizability with porcupine) and scheduler strategy from the seed; a run is non-trivial if at least two tasks were runnable at once and at least one preemption happened, or at least one fault (clock advance across TTL / cleanup tick) fired; distinct = distinct fingerprints (hash of the schedule's (task kind, yield site) sequence combined with the workload and fault tapes) among the non-trivial runs",
		Components: []component{
			{"pkg/cache LRUCache, HTTPCache.InvalidateByPrefix, cleanup goroutine", "real-woven", "L0 + race probes"},
			{"container/list, sync/atomic", "real-unwoven", ""},
			{"clock, ticker", "stub", "testing/synctest fake clock, moved only by the simulator"},
			{"HTTP middleware part of HTTPCache", "not-run", "outside the property"},
		},
		FaultKinds: []string{"clock-advance", "clock-jump", "eviction-callback-panics"},
	},
}
