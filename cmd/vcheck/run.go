package main

import (
	"bufio"
	"bytes"
	"crypto/sha256"
	"encoding/hex"
	"encoding/json"
	"fmt"
	"os"
	"os/exec"
	"path/filepath"
	"regexp"
	"sort"
	"strings"
	"sync"
	"time"
)

// mirror of zzsimrt.Record / ReplayFile (the supervisor does not import the runtime package so
// that it builds without the repository module)
type tapes struct {
	Work   []uint32 `json:"workload"`
	Sched  []uint32 `json:"schedule"`
	Fault  []uint32 `json:"fault"`
	AWork  []uint32 `json:"arity_workload,omitempty"`
	ASched []uint32 `json:"arity_schedule,omitempty"`
	AFault []uint32 `json:"arity_fault,omitempty"`
}

type record struct {
	Prop        string         `json:"prop"`
	Index       uint64         `json:"idx"`
	First       uint64         `json:"first"`
	Seed        uint64         `json:"seed"`
	OK          bool           `json:"ok"`
	Class       string         `json:"class,omitempty"`
	Site        string         `json:"site,omitempty"`
	Msg         string         `json:"msg,omitempty"`
	Infra       string         `json:"infra,omitempty"`
	Strategy    string         `json:"strategy"`
	Steps       uint64         `json:"steps"`
	Switches    uint64         `json:"switches"`
	Preemptions uint64         `json:"preemptions"`
	SimTimeNS   int64          `json:"simtime_ns"`
	Tasks       int            `json:"tasks"`
	MaxRunnable int            `json:"max_runnable"`
	Fingerprint uint64         `json:"fingerprint"`
	Faults      map[string]int `json:"faults,omitempty"`
	Probes      map[string]int `json:"probes,omitempty"`
	Diverged    bool           `json:"diverged,omitempty"`
	Notes       map[string]any `json:"notes,omitempty"`
	WallUS      int64          `json:"wall_us"`
	Tapes       *tapes         `json:"tapes,omitempty"`
	Log         []string       `json:"log,omitempty"`
}

func (r *record) signature() string { return r.Class + "|" + r.Site }

type replayFile struct {
	Property  string            `json:"property"`
	Part      string            `json:"part,omitempty"` // worker harness name when the property has several (e.g. C16g)
	// RangeFirst: the violation depends on state earlier runs left in the worker process (a
	// process-wide cache, say): the replay is the run sequence RangeFirst..Index in one fresh
	// process, not the tapes of the last run alone
	RangeFirst *uint64 `json:"range_first,omitempty"`
	Seed      uint64            `json:"seed"`
	Index     uint64            `json:"index"`
	Base      uint64            `json:"base_seed"`
	Tier      string            `json:"tier"`
	Knobs     map[string]string `json:"knobs,omitempty"`
	Tapes     tapes             `json:"tapes"`
	Strict    bool              `json:"strict"`
	Signature string            `json:"signature"`
	Message   string            `json:"message"`
	LogTail   []string          `json:"log_tail,omitempty"`
	Shrink    map[string]any    `json:"shrink,omitempty"`
	Command   string            `json:"replay_command,omitempty"`
}

type knownFinding struct {
	Property  string `json:"property"`
	Signature string `json:"signature"` // regexp over "class|site"
	What      string `json:"what"`
	Status    string `json:"status"` // open | fixed:<sha>
	Knob      string `json:"disables_knob,omitempty"`
}

func loadKnown(e *environ, prop string) []knownFinding {
	var all []knownFinding
	b, err := os.ReadFile(filepath.Join(e.verif, "known_findings.json"))
	if err != nil {
		return nil
	}
	if err := json.Unmarshal(b, &all); err != nil {
		fmt.Fprintf(os.Stderr, "vcheck: known_findings.json: %v\n", err)
		os.Exit(2)
	}
	var out []knownFinding
	for _, k := range all {
		if k.Property == prop && k.Status == "open" {
			out = append(out, k)
		}
	}
	return out
}

func matchKnown(ks []knownFinding, sig string) *knownFinding {
	for i := range ks {
		if re, err := regexp.Compile(ks[i].Signature); err == nil && re.MatchString(sig) {
			return &ks[i]
		}
	}
	return nil
}

// runWorker executes the worker binary once and returns its records.
func runWorker(e *environ, b *built, args []string, timeout time.Duration, gomaxprocs int) ([]record, string, error) {
	out := filepath.Join(b.dir, fmt.Sprintf("out-%d-%d.ndjson", os.Getpid(), time.Now().UnixNano()))
	defer os.Remove(out)
	full := append([]string{"-test.run", "^TestSim$", "-test.timeout", "0", "-sim.out", out}, args...)
	cmd := exec.Command(b.binary, full...)
	cmd.Dir = b.dir
	cmd.Env = append(append([]string{}, e.env...), "GOTRACEBACK=single")
	if gomaxprocs > 0 {
		cmd.Env = append(cmd.Env, fmt.Sprintf("GOMAXPROCS=%d", gomaxprocs))
	}
	var stderr bytes.Buffer
	cmd.Stdout, cmd.Stderr = &stderr, &stderr
	if err := cmd.Start(); err != nil {
		return nil, "", err
	}
	done := make(chan error, 1)
	go func() { done <- cmd.Wait() }()
	var werr error
	select {
	case werr = <-done:
	case <-time.After(timeout):
		cmd.Process.Kill()
		<-done
		werr = fmt.Errorf("worker watchdog: no exit after %v", timeout)
	}
	var recs []record
	if f, err := os.Open(out); err == nil {
		sc := bufio.NewScanner(f)
		sc.Buffer(make([]byte, 1<<20), 64<<20)
		for sc.Scan() {
			var r record
			if json.Unmarshal(sc.Bytes(), &r) == nil {
				recs = append(recs, r)
			}
		}
		f.Close()
	}
	return recs, stderr.String(), werr
}

type batch struct {
	mu        sync.Mutex
	recs      int
	runs      uint64
	steps     uint64
	simNS     int64
	faults    map[string]int
	probes    map[string]int
	strategy  map[string]int
	fps       map[uint64]bool
	nontriv   int
	samples   []any
	viol      []record
	infra     []string
	wallRunUS int64
	maxTasks  int
	incon     int
	perProp   map[string]uint64
}

func newBatch() *batch {
	return &batch{faults: map[string]int{}, probes: map[string]int{}, strategy: map[string]int{}, fps: map[uint64]bool{}, perProp: map[string]uint64{}}
}

func (b *batch) add(r record) {
	b.mu.Lock()
	defer b.mu.Unlock()
	b.runs++
	b.perProp[r.Prop]++
	b.steps += r.Steps
	b.simNS += r.SimTimeNS
	b.wallRunUS += r.WallUS
	b.strategy[r.Strategy]++
	nf := 0
	for k, v := range r.Faults {
		b.faults[k] += v
		nf += v
	}
	for k, v := range r.Probes {
		b.probes[k] += v
	}
	if r.Tasks > b.maxTasks {
		b.maxTasks = r.Tasks
	}
	if (r.MaxRunnable >= 2 && r.Preemptions >= 1) || nf >= 1 {
		b.nontriv++
		b.fps[r.Fingerprint^hashName(r.Prop)] = true
	}
	if r.Notes != nil && len(b.samples) < 3 {
		if s, ok := r.Notes["sample"]; ok {
			b.samples = append(b.samples, map[string]any{"seed": r.Seed, "index": r.Index, "strategy": r.Strategy, "steps": r.Steps, "preemptions": r.Preemptions, "faults": r.Faults, "verdict": verdict(r), "trace": s})
		}
	}
	if r.Infra != "" {
		b.infra = append(b.infra, fmt.Sprintf("idx %d seed %d: %s", r.Index, r.Seed, r.Infra))
	} else if !r.OK {
		b.viol = append(b.viol, r)
	}
}

func hashName(s string) uint64 {
	h := uint64(14695981039346656037)
	for i := 0; i < len(s); i++ {
		h = (h ^ uint64(s[i])) * 1099511628211
	}
	return h
}

func verdict(r record) string {
	if r.OK {
		return "held"
	}
	if r.Infra != "" {
		return "infra: " + r.Infra
	}
	return "violation " + r.signature()
}

// unit is one worker binary of a property: the property's own spec or one of its parts.
type unit struct {
	spec    *propSpec
	b       *built
	workers int
	next    uint64
	err     error
}

// buildUnits builds the worker binary of the spec and of every part, concurrently.
func buildUnits(e *environ, spec *propSpec) ([]*unit, error) {
	units := []*unit{{spec: spec}}
	for _, p := range spec.Parts {
		units = append(units, &unit{spec: p})
	}
	var wg sync.WaitGroup
	for _, u := range units {
		wg.Add(1)
		go func(u *unit) {
			defer wg.Done()
			u.b, u.err = build(e, u.spec)
		}(u)
	}
	wg.Wait()
	for _, u := range units {
		if u.err != nil {
			return units, fmt.Errorf("%s: %w", u.spec.ID, u.err)
		}
	}
	return units, nil
}

func cleanupUnits(units []*unit) {
	for _, u := range units {
		u.b.cleanup()
	}
}

func unitFor(units []*unit, prop string) *unit {
	for _, u := range units {
		if u.spec.ID == prop {
			return u
		}
	}
	return units[0]
}

func cmdCheck(e *environ, spec *propSpec, tier string, base uint64, start time.Time) int {
	units, err := buildUnits(e, spec)
	defer cleanupUnits(units)
	if err != nil {
		fmt.Fprintf(os.Stderr, "vcheck %s: cannot decide: %v\n", spec.ID, err)
		return 2
	}
	b := units[0].b
	buildSecs := time.Since(start).Seconds()
	secs, maxRuns := spec.QuickSecs, spec.QuickRuns
	if tier == "thorough" {
		secs, maxRuns = spec.ThoroughSecs, spec.ThoroughRuns
	}
	if v := os.Getenv("VCHECK_SECS"); v != "" {
		fmt.Sscan(v, &secs)
	}
	workers := spec.Workers
	if workers == 0 {
		workers = 16
	}
	// parts take their share of the workers, the property's own harness keeps the rest
	left := workers
	for _, u := range units[1:] {
		u.workers = u.spec.Workers
		if u.workers <= 0 || u.workers >= left {
			u.workers = left / (len(units))
		}
		left -= u.workers
	}
	units[0].workers = left
	known := loadKnown(e, spec.ID)
	bt := newBatch()
	deadline := time.Now().Add(time.Duration(secs) * time.Second)
	var nmu sync.Mutex
	take := func(u *unit) (uint64, uint64, bool) {
		nmu.Lock()
		defer nmu.Unlock()
		chunk := u.spec.Chunk
		if chunk == 0 {
			chunk = 100
		}
		if time.Now().After(deadline) || (maxRuns > 0 && u.next >= uint64(maxRuns)) {
			return 0, 0, false
		}
		a := u.next
		u.next += uint64(chunk)
		if maxRuns > 0 && u.next > uint64(maxRuns) {
			u.next = uint64(maxRuns)
		}
		return a, u.next, true
	}
	simStart := time.Now()
	var wg sync.WaitGroup
	var infraMu sync.Mutex
	var infra []string
	for _, u := range units {
		var firstChunk sync.Once
		for w := 0; w < u.workers; w++ {
			wg.Add(1)
			go func(u *unit) {
				defer wg.Done()
				for {
					a, z, ok := take(u)
					if !ok {
						return
					}
					samples := 0
					firstChunk.Do(func() { samples = 3 })
					for a < z {
						args := []string{"-sim.prop", u.spec.ID, "-sim.idx", fmt.Sprintf("%d:%d", a, z), "-sim.base", fmt.Sprint(base), "-sim.tier", tier,
							"-sim.deadline", fmt.Sprint(deadline.Unix() + 1), "-sim.samples", fmt.Sprint(samples)}
						recs, stderr, werr := runWorker(e, u.b, args, time.Until(deadline)+120*time.Second, 0)
						for _, r := range recs {
							r.Prop = u.spec.ID
							bt.add(r)
						}
						done := a + uint64(len(recs))
						if werr == nil {
							break // finished its range (or hit the deadline)
						}
						if ee, ok := werr.(*exec.ExitError); ok && ee.ExitCode() == 3 {
							a = done // infra record emitted, continue behind it
							continue
						}
						// crash or watchdog
						culprit := done
						if strings.Contains(stderr, "fatal error:") || strings.Contains(stderr, "panic:") {
							// a Go fatal error inside a run: the process died — record as a crash violation of run `culprit`
							bt.add(record{Prop: u.spec.ID, Index: culprit, Seed: seedFor(base, culprit), Class: "crash", Site: crashSite(stderr), Msg: tail(stderr, 40)})
						} else {
							infraMu.Lock()
							infra = append(infra, fmt.Sprintf("worker for %s idx %d failed: %v\n%s", u.spec.ID, culprit, werr, tail(stderr, 20)))
							infraMu.Unlock()
						}
						a = culprit + 1
					}
				}
			}(u)
		}
	}
	wg.Wait()
	simSecs := time.Since(simStart).Seconds()
	infra = append(infra, bt.infra...)

	// triage violations by signature
	bySig := map[string][]record{}
	var sigs []string
	for _, r := range bt.viol {
		s := r.signature()
		if _, ok := bySig[s]; !ok {
			sigs = append(sigs, s)
		}
		bySig[s] = append(bySig[s], r)
	}
	sort.Strings(sigs)
	exit := 0
	unlisted := 0
	knownSeen := map[string]int{}
	var violLines []string
	shrinkStats := []map[string]any{}
	for _, sig := range sigs {
		rs := bySig[sig]
		if k := matchKnown(known, sig); k != nil {
			knownSeen[k.What] += len(rs)
			continue
		}
		unlisted += len(rs)
		// shrink the smallest example and write the replay file
		sort.Slice(rs, func(i, j int) bool { return tapeLen(rs[i].Tapes) < tapeLen(rs[j].Tapes) })
		vu := unitFor(units, rs[0].Prop)
		rp, st, err := shrinkAndSave(e, vu.b, spec, vu.spec, tier, base, rs[0], len(violLines) < 3)
		if err != nil {
			infra = append(infra, fmt.Sprintf("replay of %s did not reproduce: %v", sig, err))
			continue
		}
		shrinkStats = append(shrinkStats, st)
		violLines = append(violLines, fmt.Sprintf("VIOLATION property=%s replay=%s", spec.ID, rp))
		fmt.Printf("violation %s (%d runs): %s\n", sig, len(rs), firstLine(rs[0].Msg))
		exit = 1
	}
	for _, k := range known {
		if n := knownSeen[k.What]; n > 0 {
			fmt.Printf("KNOWN-FINDING: property=%s %s (seen in %d runs)\n", spec.ID, k.What, n)
		} else {
			fmt.Printf("KNOWN-FINDING: property=%s %s (not reproduced in this batch)\n", spec.ID, k.What)
		}
	}
	for _, l := range violLines {
		fmt.Println(l)
	}
	if len(infra) > 0 && exit == 0 {
		exit = 2
	}
	for _, l := range infra {
		fmt.Fprintf(os.Stderr, "vcheck %s: infrastructure trouble: %s\n", spec.ID, l)
	}
	if bt.runs == 0 && exit == 0 {
		fmt.Fprintf(os.Stderr, "vcheck %s: no runs executed\n", spec.ID)
		exit = 2
	}
	writeEvidence(e, spec, tier, base, bt, units, time.Since(start).Seconds(), buildSecs, simSecs, unlisted, knownSeen, shrinkStats, infra)
	_ = b
	fmt.Printf("%s %s: %d runs, %d non-trivial distinct, %d steps, %.0f simulated s, %d violations (%d unlisted), build %.1fs sim %.1fs\n",
		spec.ID, tier, bt.runs, len(bt.fps), bt.steps, float64(bt.simNS)/1e9, len(bt.viol), unlisted, buildSecs, simSecs)
	var zero []string
	for k, v := range bt.probes {
		if v == 0 {
			zero = append(zero, k)
		}
	}
	if len(zero) > 0 {
		fmt.Printf("coverage warning: probes never hit: %v\n", zero)
	}
	return exit
}

func firstLine(s string) string {
	if i := strings.IndexByte(s, '\n'); i >= 0 {
		return s[:i]
	}
	return s
}

func crashSite(stderr string) string {
	for _, l := range strings.Split(stderr, "\n") {
		if strings.HasPrefix(l, "fatal error:") || strings.HasPrefix(l, "panic:") {
			if len(l) > 80 {
				l = l[:80]
			}
			return l
		}
	}
	return "unknown"
}

func tapeSum(t *tapes) uint64 {
	var n uint64
	for _, l := range [][]uint32{t.Work, t.Sched, t.Fault} {
		for _, v := range l {
			n += uint64(v)
		}
	}
	return n
}

func tapeLen(t *tapes) int {
	if t == nil {
		return 0
	}
	return len(t.Work) + len(t.Sched) + len(t.Fault)
}

func seedFor(base, idx uint64) uint64 {
	z := base*0x9e3779b97f4a7c15 + idx + 0x632be59bd9b4e019
	z ^= z >> 30
	z *= 0xbf58476d1ce4e5b9
	z ^= z >> 27
	z *= 0x94d049bb133111eb
	z ^= z >> 31
	return z
}

// ---------------------------------------------------------------------------------------------
// shrinking and replay files

func runReplay(e *environ, b *built, spec *propSpec, rp *replayFile) (*record, error) {
	f := filepath.Join(b.dir, fmt.Sprintf("cand-%d.json", time.Now().UnixNano()))
	buf, _ := json.Marshal(rp)
	if err := os.WriteFile(f, buf, 0o644); err != nil {
		return nil, err
	}
	defer os.Remove(f)
	recs, stderr, err := runWorker(e, b, []string{"-sim.prop", spec.ID, "-sim.replay", f, "-sim.tier", rp.Tier}, 120*time.Second, 0)
	if len(recs) == 0 {
		return nil, fmt.Errorf("replay produced no record: %v\n%s", err, tail(stderr, 20))
	}
	return &recs[0], nil
}

func shrinkAndSave(e *environ, b *built, top, spec *propSpec, tier string, base uint64, r record, doShrink bool) (string, map[string]any, error) {
	sig := r.signature()
	stats := map[string]any{"signature": sig}
	if r.Tapes == nil {
		// crash: only the seed is known; the replay is the seed itself
		r.Tapes = &tapes{}
	}
	part := ""
	if spec.ID != top.ID {
		part = spec.ID
	}
	cur := &replayFile{Property: top.ID, Part: part, Seed: r.Seed, Index: r.Index, Base: base, Tier: tier, Tapes: *r.Tapes, Signature: sig, Message: r.Msg, LogTail: r.Log}
	orig := tapeLen(&cur.Tapes)
	stats["original_choices"] = orig
	if r.Class != "crash" {
		// the recorded tape must reproduce before anything else
		first, err := runReplay(e, b, spec, cur)
		if err != nil {
			return "", stats, err
		}
		if first.signature() != sig {
			// The run alone does not reproduce. Before calling it nondeterminism: a violation may
			// depend on what earlier runs left behind in the worker process (package-level state
			// in the code under test). Re-execute the same run sequence in a fresh process, twice.
			if r.First < r.Index {
				ok := true
				for i := 0; i < 2 && ok; i++ {
					rr, rerr := runRange(e, b, spec, tier, base, r.First, r.Index)
					ok = rerr == nil && rr != nil && rr.signature() == sig
				}
				if ok {
					f := r.First
					cur.RangeFirst = &f
					cur.Strict = false
					stats["replays_as"] = fmt.Sprintf("run sequence %d..%d in one process (state carried between runs)", r.First, r.Index)
					return saveReplay(e, top, cur, sig, stats)
				}
			}
			return "", stats, fmt.Errorf("recorded tapes gave %q instead of %q (nondeterminism)", first.signature(), sig)
		}
		tried, accepted := 0, 0
		deadline := time.Now().Add(75 * time.Second)
		try := func(t tapes) bool {
			if tried >= 400 || time.Now().After(deadline) {
				return false
			}
			tried++
			c := *cur
			c.Tapes = t
			c.Tapes.AWork, c.Tapes.ASched, c.Tapes.AFault = nil, nil, nil
			c.Strict = false
			rec, err := runReplay(e, b, spec, &c)
			if err != nil || rec.signature() != sig || rec.Tapes == nil {
				return false
			}
			if nl, cl := tapeLen(rec.Tapes), tapeLen(&cur.Tapes); nl > cl || (nl == cl && tapeSum(rec.Tapes) >= tapeSum(&cur.Tapes)) {
				return false // no progress: not shorter, not smaller values
			}
			accepted++
			cur.Tapes = *rec.Tapes // normalised: exactly the choices consumed
			cur.Message = rec.Msg
			cur.LogTail = rec.Log
			return true
		}
		if doShrink {
			shrinkTapes(cur, try, func() bool { return tried >= 400 || time.Now().After(deadline) })
		} else {
			// only the first few signatures of a batch are minimised; the rest are normalised
			cur.Tapes = *first.Tapes
		}
		stats["candidates"] = tried
		stats["accepted"] = accepted
	}
	stats["final_choices"] = tapeLen(&cur.Tapes)
	// final strict verification, twice
	cur.Strict = r.Class != "crash"
	for i := 0; i < 2 && r.Class != "crash"; i++ {
		rec, err := runReplay(e, b, spec, cur)
		if err != nil {
			return "", stats, err
		}
		if rec.signature() != sig || rec.Diverged {
			return "", stats, fmt.Errorf("strict replay #%d gave %q diverged=%v instead of %q", i+1, rec.signature(), rec.Diverged, sig)
		}
	}
	return saveReplay(e, top, cur, sig, stats)
}

// runRange re-executes runs first..idx in one fresh worker process and returns the record of idx.
func runRange(e *environ, b *built, spec *propSpec, tier string, base, first, idx uint64) (*record, error) {
	recs, stderr, err := runWorker(e, b, []string{"-sim.prop", spec.ID, "-sim.idx", fmt.Sprintf("%d:%d", first, idx+1), "-sim.base", fmt.Sprint(base), "-sim.tier", tier}, 600*time.Second, 0)
	for i := range recs {
		if recs[i].Index == idx {
			return &recs[i], nil
		}
	}
	return nil, fmt.Errorf("run %d not reached: %v\n%s", idx, err, tail(stderr, 10))
}

func saveReplay(e *environ, top *propSpec, cur *replayFile, sig string, stats map[string]any) (string, map[string]any, error) {
	cur.Shrink = stats
	h := sha256.Sum256([]byte(sig))
	name := fmt.Sprintf("%s-%s.json", top.ID, hex.EncodeToString(h[:5]))
	dir := filepath.Join(e.verif, "replays")
	os.MkdirAll(dir, 0o755)
	path := filepath.Join(dir, name)
	cur.Command = fmt.Sprintf("bin/vcheck %s --replay replays/%s", top.ID, name)
	buf, _ := json.MarshalIndent(cur, "", " ")
	if err := os.WriteFile(path, buf, 0o644); err != nil {
		return "", stats, err
	}
	return path, stats, nil
}

// shrinkTapes: delta debugging over the three tapes — drop chunks, zero entries, lower values.
func shrinkTapes(cur *replayFile, try func(tapes) bool, exhausted func() bool) {
	get := func(t *tapes, i int) *[]uint32 {
		switch i {
		case 0:
			return &t.Sched
		case 1:
			return &t.Fault
		}
		return &t.Work
	}
	for round := 0; round < 3; round++ {
		progress := false
		for ti := 0; ti < 3; ti++ {
			if exhausted() {
				return
			}
			// 1. truncate / delete chunks
			for size := len(*get(&cur.Tapes, ti)); size >= 1; size /= 2 {
				for startAt := 0; ; {
					tp := *get(&cur.Tapes, ti)
					if startAt >= len(tp) || exhausted() {
						break
					}
					end := startAt + size
					if end > len(tp) {
						end = len(tp)
					}
					cand := cur.Tapes
					nt := append(append([]uint32{}, tp[:startAt]...), tp[end:]...)
					*get(&cand, ti) = nt
					if try(cand) {
						progress = true
					} else {
						startAt += size
					}
				}
			}
			// 2. zero chunks, then single entries
			for size := 8; size >= 1; size /= 2 {
				tp := *get(&cur.Tapes, ti)
				for startAt := 0; startAt < len(tp); startAt += size {
					tp = *get(&cur.Tapes, ti)
					if startAt >= len(tp) || exhausted() {
						break
					}
					end := startAt + size
					if end > len(tp) {
						end = len(tp)
					}
					allZero := true
					for _, v := range tp[startAt:end] {
						if v != 0 {
							allZero = false
						}
					}
					if allZero {
						continue
					}
					cand := cur.Tapes
					nt := append([]uint32{}, tp...)
					for i := startAt; i < end; i++ {
						nt[i] = 0
					}
					*get(&cand, ti) = nt
					if try(cand) {
						progress = true
					}
				}
			}
			// 3. halve values
			tp := *get(&cur.Tapes, ti)
			for i := 0; i < len(tp); i++ {
				tp = *get(&cur.Tapes, ti)
				if exhausted() {
					break
				}
				if i >= len(tp) || tp[i] <= 1 {
					continue
				}
				cand := cur.Tapes
				nt := append([]uint32{}, tp...)
				nt[i] /= 2
				*get(&cand, ti) = nt
				if try(cand) {
					progress = true
				}
			}
		}
		if !progress {
			break
		}
	}
}

func cmdReplay(e *environ, spec *propSpec, path string) int {
	buf, err := os.ReadFile(path)
	if err != nil {
		fmt.Fprintf(os.Stderr, "vcheck: %v\n", err)
		return 2
	}
	var rp replayFile
	if err := json.Unmarshal(buf, &rp); err != nil {
		fmt.Fprintf(os.Stderr, "vcheck: %v\n", err)
		return 2
	}
	top := spec
	if rp.Part != "" {
		found := false
		for _, p := range spec.Parts {
			if p.ID == rp.Part {
				spec, found = p, true
			}
		}
		if !found {
			fmt.Fprintf(os.Stderr, "vcheck %s: replay file names unknown part %q\n", top.ID, rp.Part)
			return 2
		}
	}
	b, err := build(e, spec)
	defer b.cleanup()
	if err != nil {
		fmt.Fprintf(os.Stderr, "vcheck %s: cannot decide: %v\n", top.ID, err)
		return 2
	}
	var rec *record
	if rp.RangeFirst != nil {
		rec, err = runRange(e, b, spec, rp.Tier, rp.Base, *rp.RangeFirst, rp.Index)
		if err != nil {
			fmt.Fprintf(os.Stderr, "vcheck %s: %v\n", top.ID, err)
			return 2
		}
	} else if rp.Signature != "" && strings.HasPrefix(rp.Signature, "crash|") {
		recs, stderr, werr := runWorker(e, b, []string{"-sim.prop", spec.ID, "-sim.idx", fmt.Sprintf("%d:%d", rp.Index, rp.Index+1), "-sim.base", fmt.Sprint(rp.Base), "-sim.tier", rp.Tier}, 300*time.Second, 0)
		if werr != nil && (strings.Contains(stderr, "fatal error:") || strings.Contains(stderr, "panic:")) {
			fmt.Printf("reproduced: crash|%s\n%s\n", crashSite(stderr), tail(stderr, 30))
			fmt.Printf("VIOLATION property=%s replay=%s\n", top.ID, path)
			return 1
		}
		if len(recs) > 0 {
			rec = &recs[0]
		}
	} else {
		rec, err = runReplay(e, b, spec, &rp)
		if err != nil {
			fmt.Fprintf(os.Stderr, "vcheck %s: %v\n", spec.ID, err)
			return 2
		}
	}
	if rec == nil {
		fmt.Fprintf(os.Stderr, "vcheck %s: replay produced nothing\n", spec.ID)
		return 2
	}
	if rec.Infra != "" {
		fmt.Fprintf(os.Stderr, "vcheck %s: replay: %s\n", spec.ID, rec.Infra)
		return 2
	}
	if rec.OK {
		if rec.Diverged {
			fmt.Fprintf(os.Stderr, "vcheck %s: replay diverged from the recorded choice arities and found no violation (the code under test changed)\n", spec.ID)
			return 2
		}
		fmt.Printf("replay of %s: no violation on the current tree (recorded: %s)\n", path, rp.Signature)
		return 0
	}
	fmt.Printf("reproduced: %s\n%s\n", rec.signature(), rec.Msg)
	if os.Getenv("VCHECK_LOG") != "" {
		for _, l := range rec.Log {
			fmt.Println("  ", l)
		}
	}
	if tr, ok := rec.Notes["sample"].([]any); ok {
		fmt.Println("trace of the replayed run:")
		for _, l := range tr {
			fmt.Println("  ", l)
		}
	}
	if rec.signature() != rp.Signature {
		fmt.Printf("note: recorded signature was %s\n", rp.Signature)
	}
	fmt.Printf("VIOLATION property=%s replay=%s\n", top.ID, path)
	return 1
}

// cmdSelftest: determinism — many seeds, each executed twice at several GOMAXPROCS values in
// separate processes; fingerprints, step counts and verdicts must agree.
func cmdSelftest(e *environ, spec *propSpec, base uint64) int {
	b, err := build(e, spec)
	defer b.cleanup()
	if err != nil {
		fmt.Fprintf(os.Stderr, "vcheck %s: cannot decide: %v\n", spec.ID, err)
		return 2
	}
	n := 60
	if v := os.Getenv("VCHECK_SELFTEST_SEEDS"); v != "" {
		fmt.Sscan(v, &n)
	}
	type key struct{ idx uint64 }
	ref := map[uint64]string{}
	bad := 0
	var mu sync.Mutex
	var wg sync.WaitGroup
	sem := make(chan struct{}, 8)
	for _, procs := range []int{1, 4, 16, 1, 16} {
		for a := 0; a < n; a += 10 {
			wg.Add(1)
			sem <- struct{}{}
			go func(procs, a int) {
				defer wg.Done()
				defer func() { <-sem }()
				recs, stderr, werr := runWorker(e, b, []string{"-sim.prop", spec.ID, "-sim.idx", fmt.Sprintf("%d:%d", a, a+10), "-sim.base", fmt.Sprint(base), "-sim.tier", "quick"}, 600*time.Second, procs)
				mu.Lock()
				defer mu.Unlock()
				if werr != nil {
					fmt.Fprintf(os.Stderr, "selftest worker: %v\n%s\n", werr, tail(stderr, 10))
					bad++
				}
				for _, r := range recs {
					sum := fmt.Sprintf("fp=%x steps=%d switches=%d sim=%d verdict=%s", r.Fingerprint, r.Steps, r.Switches, r.SimTimeNS, verdict(r))
					if prev, ok := ref[r.Index]; ok {
						if prev != sum {
							fmt.Printf("NONDETERMINISM idx=%d seed=%d GOMAXPROCS=%d:\n  %s\n  %s\n", r.Index, r.Seed, procs, prev, sum)
							bad++
						}
					} else {
						ref[r.Index] = sum
					}
				}
			}(procs, a)
		}
	}
	wg.Wait()
	fmt.Printf("%s selftest: %d seeds × 5 executions (GOMAXPROCS 1,4,16,1,16), %d mismatches\n", spec.ID, len(ref), bad)
	if bad > 0 {
		return 2
	}
	return 0
}

// cmdWeavetest checks that the weaver preserves semantics apart from adding scheduling points:
// the unit tests of every woven repository package are run against the woven build with no
// simulation active (every runtime entry point then degrades to the plain operation).
func cmdWeavetest(e *environ, spec *propSpec) int {
	b, err := build(e, spec)
	defer b.cleanup()
	if err != nil {
		fmt.Fprintf(os.Stderr, "vcheck %s: cannot decide: %v\n", spec.ID, err)
		return 2
	}
	bad := 0
	for _, pc := range spec.Weave {
		if !strings.HasPrefix(pc.Path, "./") {
			continue
		}
		args := []string{"test", "-count=1", "-vet=off", "-timeout", "20m", "-overlay", filepath.Join(b.dir, "overlay.json"), "-modfile", filepath.Join(b.dir, "go.mod"), pc.Path}
		cmd := exec.Command(e.goBin, args...)
		cmd.Dir = e.repo
		cmd.Env = e.env
		var out bytes.Buffer
		cmd.Stdout, cmd.Stderr = &out, &out
		err := cmd.Run()
		res := "ok"
		if err != nil {
			res = "FAILED"
			bad++
		}
		fmt.Printf("%s weavetest %-22s %s\n", spec.ID, pc.Path, res)
		if err != nil {
			fmt.Println(tail(out.String(), 30))
		}
	}
	if bad > 0 {
		return 2
	}
	return 0
}
