package main

import (
	"bytes"
	"fmt"
	"os"
	"os/exec"
	"path/filepath"
	"strings"

	"verif/sim/weave"
)

const goroot125 = "/root/go/pkg/mod/golang.org/toolchain@v0.0.1-go1.25.0.linux-amd64"

type environ struct {
	verif string
	repo  string
	goBin string
	env   []string
}

func newEnv() *environ {
	e := &environ{verif: "/verif", repo: "/repo"}
	if v := os.Getenv("VERIF_DIR"); v != "" {
		e.verif = v
	} else if exe, err := os.Executable(); err == nil {
		if d := filepath.Dir(filepath.Dir(exe)); fileExists(filepath.Join(d, "sim", "rt", "sim.go")) {
			e.verif = d
		}
	}
	if v := os.Getenv("VERIF_REPO"); v != "" {
		e.repo = v
	}
	e.goBin = filepath.Join(goroot125, "bin", "go")
	if !fileExists(e.goBin) {
		// fall back to whatever `go` is on PATH (it auto-switches to the toolchain go.mod asks for)
		e.goBin = "go"
	}
	env := []string{}
	for _, kv := range os.Environ() {
		k := kv[:strings.IndexByte(kv, '=')]
		switch k {
		case "GOFLAGS", "GOPROXY", "GOSUMDB", "GOTOOLCHAIN", "GOWORK", "CGO_ENABLED", "GONOSUMDB", "GONOSUMCHECK", "GOROOT":
			continue
		}
		env = append(env, kv)
	}
	env = append(env, "GOFLAGS=-mod=mod", "GOPROXY=off", "GOSUMDB=off", "GOTOOLCHAIN=local", "GOWORK=off", "CGO_ENABLED=0",
		"PATH="+filepath.Join(goroot125, "bin")+":"+os.Getenv("PATH"))
	e.env = env
	// go/packages inside this process shells out to `go`
	os.Setenv("PATH", filepath.Join(goroot125, "bin")+":"+os.Getenv("PATH"))
	for _, kv := range []string{"GOFLAGS=-mod=mod", "GOPROXY=off", "GOSUMDB=off", "GOTOOLCHAIN=local", "GOWORK=off", "CGO_ENABLED=0"} {
		i := strings.IndexByte(kv, '=')
		os.Setenv(kv[:i], kv[i+1:])
	}
	return e
}

func fileExists(p string) bool { _, err := os.Stat(p); return err == nil }

// built is a ready-to-run woven test binary in a scratch directory.
type built struct {
	dir    string
	binary string
	stats  *weave.Stats
}

func (b *built) cleanup() {
	if b != nil && b.dir != "" && os.Getenv("VCHECK_KEEP") == "" {
		os.RemoveAll(b.dir)
	}
}

// build weaves the packages the property needs from the current working tree and compiles the
// worker test binary with -overlay/-modfile. Nothing under /repo is written.
func build(e *environ, spec *propSpec) (*built, error) {
	dir, err := os.MkdirTemp("", "glyphsim-"+spec.ID+"-")
	if err != nil {
		return nil, err
	}
	b := &built{dir: dir}
	overlay := map[string]string{}
	if len(spec.Weave) > 0 {
		ov, st, err := weave.Weave(weave.Config{Repo: e.repo, Out: dir, Packages: spec.Weave})
		if err != nil {
			return b, fmt.Errorf("weave: %w", err)
		}
		overlay = ov
		b.stats = st
	}
	// runtime package, overlay-only directory inside the module
	rtFiles, _ := filepath.Glob(filepath.Join(e.verif, "sim", "rt", "*.go"))
	for _, f := range rtFiles {
		if strings.HasSuffix(f, "_test.go") {
			continue
		}
		overlay[filepath.Join(e.repo, "pkg", "zzsimrt", filepath.Base(f))] = f
	}
	// stand-in packages (sim net, sim fsnotify, ...)
	for _, extra := range spec.ExtraPkgs {
		files, _ := filepath.Glob(filepath.Join(e.verif, extra.From, "*.go"))
		for _, f := range files {
			if strings.HasSuffix(f, "_test.go") {
				continue
			}
			overlay[filepath.Join(e.repo, extra.To, filepath.Base(f))] = f
		}
	}
	// harness test files, injected into the package under test
	var hfiles []string
	for _, d := range append([]string{spec.HarnessDir}, spec.HarnessExtra...) {
		fs, _ := filepath.Glob(filepath.Join(e.verif, "harness", d, "*_test.go"))
		if len(fs) == 0 {
			return b, fmt.Errorf("no harness files in harness/%s", d)
		}
		hfiles = append(hfiles, fs...)
	}
	for _, f := range hfiles {
		overlay[filepath.Join(e.repo, spec.TestPkg, "zz_"+filepath.Base(f))] = f
	}
	// modfile: the repository's go.mod plus harness-only requirements
	mod, err := os.ReadFile(filepath.Join(e.repo, "go.mod"))
	if err != nil {
		return b, err
	}
	mod = append(mod, []byte("\nrequire github.com/anishathalye/porcupine v1.3.0\n")...)
	// woven dependencies: files under GOMODCACHE cannot be overlaid, so the module is copied to
	// the scratch directory, its woven files are written over the copies, and the scratch go.mod
	// replaces the module with that directory
	for _, rm := range spec.ReplaceModules {
		src := filepath.Join(gomodcache(e), rm.Dir)
		dst := filepath.Join(dir, "mods", filepath.Base(rm.Dir))
		if err := copyTree(src, dst); err != nil {
			return b, fmt.Errorf("copy module %s: %w", rm.Path, err)
		}
		for orig, woven := range overlay {
			if strings.HasPrefix(orig, src+string(filepath.Separator)) {
				data, err := os.ReadFile(woven)
				if err != nil {
					return b, err
				}
				if err := os.WriteFile(filepath.Join(dst, strings.TrimPrefix(orig, src)), data, 0o644); err != nil {
					return b, err
				}
				delete(overlay, orig)
			}
		}
		// the woven files use generics and range-over-func: raise the copy's language version
		if gm, err := os.ReadFile(filepath.Join(dst, "go.mod")); err == nil {
			lines := strings.Split(string(gm), "\n")
			for i, l := range lines {
				if strings.HasPrefix(strings.TrimSpace(l), "go ") {
					lines[i] = "go 1.25"
				}
			}
			os.WriteFile(filepath.Join(dst, "go.mod"), []byte(strings.Join(lines, "\n")), 0o644)
		}
		mod = append(mod, []byte(fmt.Sprintf("\nreplace %s => %s\n", rm.Path, dst))...)
	}
	if err := weave.WriteOverlay(filepath.Join(dir, "overlay.json"), overlay); err != nil {
		return b, err
	}
	if err := os.WriteFile(filepath.Join(dir, "go.mod"), mod, 0o644); err != nil {
		return b, err
	}
	sum, _ := os.ReadFile(filepath.Join(e.repo, "go.sum"))
	extraSum, _ := os.ReadFile(filepath.Join(e.verif, "sim", "extra.go.sum"))
	if err := os.WriteFile(filepath.Join(dir, "go.sum"), append(sum, extraSum...), 0o644); err != nil {
		return b, err
	}
	b.binary = filepath.Join(dir, "worker.test")
	args := []string{"test", "-c", "-vet=off", "-overlay", filepath.Join(dir, "overlay.json"), "-modfile", filepath.Join(dir, "go.mod"), "-o", b.binary, "./" + spec.TestPkg}
	cmd := exec.Command(e.goBin, args...)
	cmd.Dir = e.repo
	cmd.Env = e.env
	var out bytes.Buffer
	cmd.Stdout, cmd.Stderr = &out, &out
	if err := cmd.Run(); err != nil {
		return b, fmt.Errorf("go %s: %v\n%s", strings.Join(args, " "), err, tail(out.String(), 60))
	}
	return b, nil
}

func gomodcache(e *environ) string {
	if v := os.Getenv("GOMODCACHE"); v != "" {
		return v
	}
	return "/root/go/pkg/mod"
}

func copyTree(src, dst string) error {
	return filepath.Walk(src, func(p string, info os.FileInfo, err error) error {
		if err != nil {
			return err
		}
		rel, _ := filepath.Rel(src, p)
		target := filepath.Join(dst, rel)
		if info.IsDir() {
			return os.MkdirAll(target, 0o755)
		}
		if strings.HasSuffix(p, "_test.go") {
			return nil
		}
		data, err := os.ReadFile(p)
		if err != nil {
			return err
		}
		return os.WriteFile(target, data, 0o644)
	})
}

func tail(s string, n int) string {
	lines := strings.Split(strings.TrimRight(s, "\n"), "\n")
	if len(lines) > n {
		lines = lines[len(lines)-n:]
	}
	return strings.Join(lines, "\n")
}
