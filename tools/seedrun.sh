#!/bin/bash
# seedrun.sh <PROP> <mutant-dir> <demo-pkg-dir-rel> [secs]   (e.g. C14 /tmp/seed/C14-out/m1 pkg/database)
# Confirms a seeded change in a scratch worktree (builds, existing tests of the touched packages pass,
# demo fails with it and passes without it) and runs the property's quick check against it.
set -u
PROP=$1; MDIR=$2; DEMOPKG=$3; SECS=${4:-40}
. /verif/env.sh
WT=/tmp/sv/$PROP-$(basename $MDIR)-$$
mkdir -p /tmp/sv
git -C /repo worktree add -q $WT HEAD || exit 2
cleanup() { git -C /repo worktree remove --force $WT >/dev/null 2>&1; }
trap cleanup EXIT
cd $WT
DEMOS=$(ls $MDIR/*_test.go 2>/dev/null)
PKGS=$(grep '^+++ b/' $MDIR/patch.diff | sed 's#+++ b/##' | xargs -n1 dirname | sort -u | sed 's#^#./#' | tr '\n' ' ')
echo "== touched packages: $PKGS"
# without the patch: demo passes
for d in $DEMOS; do cp $d $WT/$DEMOPKG/zzdemo_$(basename $d); done
DEMORUN=$(grep -ho 'func Test[A-Za-z0-9_]*' $DEMOS | sed 's/func //' | sort -u | paste -sd'|')
echo "== demo tests: $DEMORUN"
go test -count=1 -run "^($DEMORUN)\$" ./$DEMOPKG > /tmp/sv/without.$$ 2>&1; W0=$?
echo "demo WITHOUT patch: exit $W0 ($(tail -1 /tmp/sv/without.$$))"
git apply $MDIR/patch.diff || { echo "PATCH DOES NOT APPLY"; exit 2; }
go build ./... > /tmp/sv/build.$$ 2>&1; B=$?
echo "build WITH patch: exit $B"
go test -count=1 -run "^($DEMORUN)\$" ./$DEMOPKG > /tmp/sv/with.$$ 2>&1; W1=$?
echo "demo WITH patch: exit $W1 ($(grep -m1 -E '^--- FAIL|panic|FAIL' /tmp/sv/with.$$))"
rm -f $WT/$DEMOPKG/zzdemo_*
go test -count=1 $PKGS ./cmd/glyph > /tmp/sv/suite.$$ 2>&1; S=$?
echo "existing tests of touched packages WITH patch: exit $S ($(grep -c '^ok' /tmp/sv/suite.$$) ok, $(grep -c '^FAIL' /tmp/sv/suite.$$) FAIL)"
cd /verif
VERIF_REPO=$WT VCHECK_SECS=$SECS ./bin/vcheck $PROP quick > /tmp/sv/vcheck.$$ 2>&1; V=$?
echo "vcheck $PROP quick on patched tree: exit $V"
grep -E '^violation|^KNOWN|trouble|cannot' /tmp/sv/vcheck.$$ | cut -c1-260 | head -8
tail -1 /tmp/sv/vcheck.$$ | cut -c1-200
rm -f /verif/replays/$PROP-*.json
echo "SUMMARY prop=$PROP mutant=$(basename $MDIR) demo_without=$W0 build=$B demo_with=$W1 suite=$S vcheck=$V"
