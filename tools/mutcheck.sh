#!/bin/bash
# mutcheck.sh <PROP> <mutant-dir> [secs]  — applies <mutant-dir>/patch.diff in a scratch worktree of /repo and runs the
# property's quick check against it (the demonstration is not re-run; see seedrun.sh for the full confirmation)
set -u
PROP=$1; MDIR=$2; SECS=${3:-40}
WT=/tmp/mc/$PROP-$(basename $MDIR)-$$
mkdir -p /tmp/mc
git -C /repo worktree add -q $WT HEAD || exit 2
trap 'git -C /repo worktree remove --force $WT >/dev/null 2>&1' EXIT
(cd $WT && git apply $MDIR/patch.diff) || { echo "PATCH DOES NOT APPLY"; exit 2; }
cd /verif
VERIF_REPO=$WT VCHECK_SECS=$SECS ./bin/vcheck $PROP quick > /tmp/mc/out.$$ 2>&1; V=$?
grep -E '^violation|^KNOWN|trouble|cannot' /tmp/mc/out.$$ | cut -c1-300 | head -6
tail -n 1 /tmp/mc/out.$$ | cut -c1-200
rm -f /verif/replays/$PROP-*.json /tmp/mc/out.$$
echo "MUTCHECK prop=$PROP mutant=$MDIR vcheck=$V"
