#!/bin/sh
# builds bin/vcheck and bin/weavecli from files on disk only (offline)
set -e
cd "$(dirname "$0")"
. ./env.sh
mkdir -p bin evidence replays
go build -o bin/vcheck ./cmd/vcheck
go build -o bin/weavecli ./cmd/weavecli
