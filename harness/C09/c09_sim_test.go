package main

// glyphsim harness for property C09 — "async blocks are race-free, deterministic and settle once".
// (A) the Future library under seeded schedules; (B) generated async/await route programs run
// through the real server in both execution modes. Injected into cmd/glyph at check time.

import (
	"context"
	"errors"
	"fmt"
	"reflect"
	"sort"
	"strings"
	"testing"
	"time"

	"github.com/glyphlang/glyph/pkg/interpreter"
	sim "github.com/glyphlang/glyph/pkg/zzsimrt"
)

func TestSim(t *testing.T) {
	simQuiet()
	sim.WorkerMain(t, map[string]sim.HarnessFunc{"C09": c09Run})
}

func c09Run(s *sim.Sim, p *sim.Params) {
	s.SetLimits(600_000, 0)
	mode := s.Choose(sim.SWork, 10)
	if k := p.Knob("mode", -1); k >= 0 {
		mode = k
	}
	switch {
	case mode < 3:
		c09Futures(s, p)
	case mode < 5:
		c09Sequenced(s, p)
	case mode == 5:
		c09PooledVM(s, p)
	default:
		c09Programs(s, p)
	}
}

// ---------------------------------------------------------------------------------------------
// (A) Future library

type c09outcome struct {
	state string // pending | resolved | rejected
	val   string
}

func (o c09outcome) String() string { return o.state + "(" + o.val + ")" }

type c09obs struct {
	fut       int
	how       string
	out       c09outcome
	call, ret uint64
}

type c09settle struct {
	fut       int
	out       c09outcome
	call, ret uint64
}

func c09of(v interface{}, err error) c09outcome {
	if err != nil {
		return c09outcome{"rejected", err.Error()}
	}
	return c09outcome{"resolved", fmt.Sprint(v)}
}

func c09Futures(s *sim.Sim, p *sim.Params) {
	nf := 1 + s.Choose(sim.SWork, 4)
	futs := make([]*interpreter.Future, nf)
	for i := range futs {
		futs[i] = interpreter.NewFuture()
	}
	var sample []string
	defer func() { s.Note("sample", sample) }()
	sample = append(sample, fmt.Sprintf("mode=futures futures=%d", nf))
	// combinators over subsets, created up front by main or later by a task
	type comb struct {
		kind   string
		inputs []int
		f      *interpreter.Future
		made   uint64
	}
	var combs []*comb
	mayCancel := make([]uint64, nf) // stamp from which a combinator (or context) may cancel the future; 0 = never
	mkComb := func() {
		kind := []string{"all", "race", "any"}[s.Choose(sim.SWork, 3)]
		n := s.Choose(sim.SWork, nf+1)
		var in []int
		var fs []*interpreter.Future
		for k := 0; k < n; k++ {
			j := s.Choose(sim.SWork, nf)
			in = append(in, j)
			fs = append(fs, futs[j])
		}
		c := &comb{kind: kind, inputs: in, made: s.Stamp()}
		for _, j := range in {
			if kind != "any" && (mayCancel[j] == 0 || c.made < mayCancel[j]) {
				mayCancel[j] = c.made
			}
		}
		switch kind {
		case "all":
			c.f = interpreter.All(fs...)
		case "race":
			c.f = interpreter.Race(fs...)
		default:
			c.f = interpreter.Any(fs...)
		}
		combs = append(combs, c)
		sample = append(sample, fmt.Sprintf("%s%v created at %d", kind, in, c.made))
	}
	ncomb := s.Choose(sim.SWork, 3)
	for i := 0; i < ncomb; i++ {
		mkComb()
	}
	var obs []c09obs
	var settles []c09settle
	nuniq := 0
	ntasks := 2 + s.Choose(sim.SWork, 5)
	var hs []*sim.Handle
	for ti := 0; ti < ntasks; ti++ {
		nops := 1 + s.Choose(sim.SWork, 6)
		type op struct {
			kind string
			fut  int
			arg  string
			d    time.Duration
		}
		ops := make([]op, nops)
		for i := range ops {
			o := op{fut: s.Choose(sim.SWork, nf)}
			switch r := s.Choose(sim.SWork, 16); {
			case r < 3:
				nuniq++
				o.kind, o.arg = "resolve", fmt.Sprintf("v%d", nuniq)
			case r < 5:
				nuniq++
				o.kind, o.arg = "reject", fmt.Sprintf("e%d", nuniq)
			case r < 6:
				o.kind = "cancel"
			case r < 9:
				o.kind = "await-timeout"
				o.d = []time.Duration{time.Millisecond, 50 * time.Millisecond, 2 * time.Second}[s.Choose(sim.SWork, 3)]
			case r < 10:
				o.kind = "await-ctx"
				o.d = []time.Duration{time.Millisecond, 30 * time.Millisecond, time.Second}[s.Choose(sim.SWork, 3)]
			case r < 12:
				o.kind = "state"
			case r < 13:
				o.kind = "value"
			case r < 14:
				o.kind = "error"
			case r < 15:
				o.kind = "sleep"
				o.d = []time.Duration{time.Millisecond, 40 * time.Millisecond}[s.Choose(sim.SWork, 2)]
			default:
				o.kind = "comb"
			}
			ops[i] = o
		}
		hs = append(hs, s.Spawn(fmt.Sprintf("actor#%d", ti), func() {
			for _, o := range ops {
				f := futs[o.fut]
				s.Op(o.kind)
				call := s.Stamp()
				switch o.kind {
				case "resolve":
					f.Resolve(o.arg)
					settles = append(settles, c09settle{o.fut, c09outcome{"resolved", o.arg}, call, s.Stamp()})
				case "reject":
					f.Reject(errors.New(o.arg))
					settles = append(settles, c09settle{o.fut, c09outcome{"rejected", o.arg}, call, s.Stamp()})
				case "cancel":
					f.Cancel()
					settles = append(settles, c09settle{o.fut, c09outcome{"rejected", "future cancelled"}, call, s.Stamp()})
				case "await-timeout":
					v, err := f.AwaitWithTimeout(o.d)
					out := c09of(v, err)
					if err != nil && strings.HasPrefix(err.Error(), "future timed out") {
						out = c09outcome{"pending", ""}
					}
					obs = append(obs, c09obs{o.fut, "await-timeout", out, call, s.Stamp()})
				case "await-ctx":
					ctx, cancel := sim.WithTimeout(context.Background(), o.d)
					if mayCancel[o.fut] == 0 || call < mayCancel[o.fut] {
						mayCancel[o.fut] = call // AwaitWithContext cancels the future when the context ends
					}
					v, err := f.AwaitWithContext(ctx)
					cancel()
					out := c09of(v, err)
					if err != nil && (errors.Is(err, context.DeadlineExceeded) || errors.Is(err, context.Canceled)) {
						out = c09outcome{"pending", ""}
					}
					obs = append(obs, c09obs{o.fut, "await-ctx", out, call, s.Stamp()})
				case "state":
					st := f.State()
					obs = append(obs, c09obs{o.fut, "state", c09outcome{st.String(), "?"}, call, s.Stamp()})
				case "value":
					v := f.Value()
					if v != nil {
						obs = append(obs, c09obs{o.fut, "value", c09outcome{"resolved", fmt.Sprint(v)}, call, s.Stamp()})
					}
				case "error":
					if err := f.Error(); err != nil {
						obs = append(obs, c09obs{o.fut, "error", c09outcome{"rejected", err.Error()}, call, s.Stamp()})
					}
				case "sleep":
					s.Sleep(o.d)
				case "comb":
					mkComb()
				}
			}
		}))
	}
	if !s.WaitTimeout(time.Minute, hs...) {
		s.Fail("deadlock", s.BlockedSitesOf(hs...), "future operations did not return: "+s.BlockedSummary())
	}
	s.Quiesce(5 * time.Second)
	// final observations by main
	final := make([]c09outcome, nf)
	for i, f := range futs {
		final[i] = c09final(f)
		obs = append(obs, c09obs{i, "final", final[i], s.Stamp(), s.Stamp()})
	}
	for _, st := range settles {
		sample = append(sample, fmt.Sprintf("f%d settle [%d,%d] %v", st.fut, st.call, st.ret, st.out))
	}
	for _, o := range obs {
		sample = append(sample, fmt.Sprintf("f%d %s [%d,%d] -> %v", o.fut, o.how, o.call, o.ret, o.out))
	}
	// settle-once: the first observed settled outcome is the outcome for every later observation
	for i := range futs {
		var first *c09obs
		var os []c09obs
		for _, o := range obs {
			if o.fut == i {
				os = append(os, o)
			}
		}
		sort.SliceStable(os, func(a, b int) bool { return os[a].ret < os[b].ret })
		for k := range os {
			o := &os[k]
			if o.out.state == "pending" {
				if first != nil && o.call > first.ret {
					s.Fail("oracle", "settle-once:unsettled-again", fmt.Sprintf("future %d observed %v at [%d,%d] after it was observed %v at [%d,%d]", i, o.out, o.call, o.ret, first.out, first.call, first.ret))
				}
				continue
			}
			if first == nil {
				first = o
				continue
			}
			if o.out.state != first.out.state || (o.out.val != "?" && first.out.val != "?" && o.out.val != first.out.val) {
				s.Fail("oracle", "settle-once:outcome-changed", fmt.Sprintf("future %d observed %v at [%d,%d] but %v at [%d,%d]", i, first.out, first.call, first.ret, o.out, o.call, o.ret))
			}
			if first.out.val == "?" {
				first = o
			}
		}
		// the outcome is one that some settling call asked for
		fo := final[i]
		if fo.state != "pending" {
			okc := false
			for _, st := range settles {
				if st.fut == i && st.out == fo {
					okc = true
				}
			}
			if fo == (c09outcome{"rejected", "future cancelled"}) && mayCancel[i] != 0 {
				okc = true
			}
			if !okc {
				s.Fail("oracle", "settle-once:outcome-from-nowhere", fmt.Sprintf("future %d ended as %v which no call asked for", i, fo))
			}
			s.Probe("future-settled")
		} else {
			for _, st := range settles {
				if st.fut == i {
					s.Fail("oracle", "settle-once:lost-settle", fmt.Sprintf("future %d is still pending after %v returned", i, st.out))
				}
			}
		}
		// first settling call wins when it is unambiguously first
		var firstSet *c09settle
		for k := range settles {
			st := &settles[k]
			if st.fut == i && (firstSet == nil || st.call < firstSet.call) {
				firstSet = st
			}
		}
		if firstSet != nil {
			unamb := mayCancel[i] == 0 || mayCancel[i] > firstSet.ret
			for k := range settles {
				st := &settles[k]
				if st.fut == i && st != firstSet && st.call <= firstSet.ret {
					unamb = false
				}
			}
			if unamb {
				s.Probe("unambiguous-first-settle")
				if fo != firstSet.out {
					s.Fail("oracle", "settle-once:first-did-not-win", fmt.Sprintf("future %d: %v returned at %d before any other settling call was invoked, but the future ended as %v", i, firstSet.out, firstSet.ret, fo))
				}
			}
		}
	}
	// combinator contracts, judged on the final (quiescent) states
	for _, c := range combs {
		r := c09final(c.f)
		var ins []c09outcome
		for _, j := range c.inputs {
			ins = append(ins, final[j])
		}
		sample = append(sample, fmt.Sprintf("%s%v -> %v (inputs %v)", c.kind, c.inputs, r, ins))
		c09checkComb(s, c.kind, ins, r, c.f)
	}
}

func c09final(f *interpreter.Future) c09outcome {
	switch f.State() {
	case interpreter.FutureResolved:
		return c09outcome{"resolved", fmt.Sprint(f.Value())}
	case interpreter.FutureRejected:
		return c09outcome{"rejected", f.Error().Error()}
	}
	return c09outcome{"pending", ""}
}

func c09checkComb(s *sim.Sim, kind string, ins []c09outcome, r c09outcome, f *interpreter.Future) {
	pending, resolved, rejected := 0, 0, 0
	for _, o := range ins {
		switch o.state {
		case "pending":
			pending++
		case "resolved":
			resolved++
		default:
			rejected++
		}
	}
	fail := func(site, msg string) {
		s.Fail("oracle", "combinator:"+kind+":"+site, fmt.Sprintf("%s over %v ended as %v: %s", kind, ins, r, msg))
	}
	switch kind {
	case "all":
		switch r.state {
		case "resolved":
			vals, ok := f.Value().([]interface{})
			if !ok || len(vals) != len(ins) {
				fail("shape", "result is not a slice with one value per input")
				return
			}
			for i, o := range ins {
				if o.state != "resolved" || fmt.Sprint(vals[i]) != o.val {
					fail("order", fmt.Sprintf("value %d is %v but input %d ended as %v", i, vals[i], i, o))
				}
			}
		case "rejected":
			found := false
			for _, o := range ins {
				if o.state == "rejected" && o.val == r.val {
					found = true
				}
			}
			if !found {
				fail("error", "rejected with an error none of its inputs has")
			}
		default:
			if pending == 0 {
				fail("liveness", "still pending although every input has settled")
			}
		}
	case "race":
		if len(ins) == 0 {
			if r.state != "rejected" {
				fail("empty", "Race() with no inputs must reject")
			}
			return
		}
		switch r.state {
		case "pending":
			if pending < len(ins) {
				fail("liveness", "still pending although an input has settled")
			}
		default:
			found := false
			for _, o := range ins {
				if o == r {
					found = true
				}
			}
			if !found {
				fail("outcome", "outcome is not the outcome of any input")
			}
		}
	case "any":
		if len(ins) == 0 {
			if r.state != "rejected" {
				fail("empty", "Any() with no inputs must reject")
			}
			return
		}
		switch r.state {
		case "resolved":
			found := false
			for _, o := range ins {
				if o == r {
					found = true
				}
			}
			if !found {
				fail("outcome", "resolved with a value no input resolved to")
			}
		case "rejected":
			if rejected != len(ins) {
				fail("early-reject", "rejected although not every input rejected")
			}
		default:
			if resolved > 0 || pending == 0 {
				fail("liveness", "still pending although an input resolved or all inputs settled")
			}
		}
	}
}

// c09Sequenced: first-settled / first-success with a full drain between the settles, so that
// "first" is unambiguous.
func c09Sequenced(s *sim.Sim, p *sim.Params) {
	kind := []string{"race", "any", "all"}[s.Choose(sim.SWork, 3)]
	n := 2 + s.Choose(sim.SWork, 3)
	futs := make([]*interpreter.Future, n)
	var fs []*interpreter.Future
	for i := range futs {
		futs[i] = interpreter.NewFuture()
		fs = append(fs, futs[i])
	}
	var r *interpreter.Future
	switch kind {
	case "race":
		r = interpreter.Race(fs...)
	case "any":
		r = interpreter.Any(fs...)
	default:
		r = interpreter.All(fs...)
	}
	var sample []string
	defer func() { s.Note("sample", sample) }()
	sample = append(sample, fmt.Sprintf("mode=sequenced %s over %d futures", kind, n))
	// awaiters on the result, started before anything settles
	type got struct {
		v   interface{}
		err error
	}
	var results []got
	var hs []*sim.Handle
	for k := 0; k < 1+s.Choose(sim.SWork, 3); k++ {
		hs = append(hs, s.Spawn(fmt.Sprintf("awaiter#%d", k), func() {
			v, err := r.AwaitWithTimeout(time.Hour)
			results = append(results, got{v, err})
		}))
	}
	order := s.Choose(sim.SWork, n)
	rejected := make([]bool, n)
	var expect c09outcome
	decided := false
	allVals := make([]interface{}, n)
	allOK := true
	var allErrs []string
	for step := 0; step < n; step++ {
		i := (order + step) % n
		reject := s.Choose(sim.SWork, 3) == 0
		if kind == "all" && s.Choose(sim.SWork, 3) == 0 {
			reject = true // (several failing inputs are the interesting case for All)
		}
		val := fmt.Sprintf("w%d", i)
		rejected[i] = reject
		if reject {
			futs[i].Reject(errors.New(val))
		} else {
			futs[i].Resolve(val)
		}
		out := c09outcome{"resolved", val}
		if reject {
			out = c09outcome{"rejected", val}
		}
		sample = append(sample, fmt.Sprintf("settle f%d %v then drain", i, out))
		// drain: every runnable task runs to a blocked state before the next settle
		s.Quiesce(0)
		switch kind {
		case "race":
			if !decided {
				expect, decided = out, true
			}
		case "any":
			if !decided && !reject {
				expect, decided = out, true
			}
		case "all":
			if reject {
				allOK = false
				decided = true
				allErrs = append(allErrs, val)
			}
			allVals[i] = val
		}
	}
	s.Quiesce(time.Second)
	got1 := c09final(r)
	sample = append(sample, fmt.Sprintf("result %v", got1))
	if kind == "all" {
		// All over the same inputs is a function of what the inputs settle to, not of when: a
		// twin set of futures settles to the same outcomes in the opposite order
		twins := make([]*interpreter.Future, n)
		for i := range twins {
			twins[i] = interpreter.NewFuture()
		}
		r2 := interpreter.All(twins...)
		for step := n - 1; step >= 0; step-- {
			i := (order + step) % n
			if rejected[i] {
				twins[i].Reject(errors.New(fmt.Sprintf("w%d", i)))
			} else {
				twins[i].Resolve(fmt.Sprintf("w%d", i))
			}
			s.Quiesce(0)
		}
		s.Quiesce(time.Second)
		got2 := c09final(r2)
		sample = append(sample, fmt.Sprintf("twin (opposite settle order) result %v", got2))
		if got1 != got2 {
			s.Fail("oracle", "combinator:all:depends-on-settle-order", fmt.Sprintf("All over inputs that settle to the same outcomes (rejected: %v) ended as %v when they settled in one order and as %v in the opposite order", rejected, got1, got2))
		}
		for i, tw := range twins {
			// (All is documented to cancel the inputs that come after the failing one; the
			// inputs in front of it are only waited for)
			if rejected[i] {
				break
			}
			want := c09outcome{"resolved", fmt.Sprintf("w%d", i)}
			if o := c09final(tw); o != want {
				s.Fail("oracle", "combinator:all:input-disturbed", fmt.Sprintf("input %d of All was settled as %v by its producer but ends as %v: All changed the outcome of a block whose result it was only asked to wait for", i, want, o))
			}
		}
		s.Probe("all-twin-compared")
	}
	switch kind {
	case "race":
		if got1 != expect {
			s.Fail("oracle", "combinator:race:first-settled", fmt.Sprintf("Race: first settled input was %v (fully drained before the next settle) but the race ended as %v", expect, got1))
		}
	case "any":
		if decided && got1 != expect {
			s.Fail("oracle", "combinator:any:first-success", fmt.Sprintf("Any: first successful input was %v (fully drained before the next settle) but the result is %v", expect, got1))
		}
		if !decided && got1.state != "rejected" {
			s.Fail("oracle", "combinator:any:all-rejected", fmt.Sprintf("Any: every input rejected but the result is %v", got1))
		}
	case "all":
		if decided {
			// All waits for its inputs in argument order, so which rejection it reports depends on
			// the order; the contract is that it rejects with one of the inputs' errors
			okErr := false
			for _, e := range allErrs {
				if got1 == (c09outcome{"rejected", e}) {
					okErr = true
				}
			}
			if !okErr {
				s.Fail("oracle", "combinator:all:error", fmt.Sprintf("All: inputs rejected with %v (every input settled) but the result is %v", allErrs, got1))
			}
			_ = allOK
		} else {
			vals, _ := r.Value().([]interface{})
			if got1.state != "resolved" || !reflect.DeepEqual(vals, allVals) {
				s.Fail("oracle", "combinator:all:order", fmt.Sprintf("All: every input resolved (%v) but the result is %v", allVals, got1))
			}
		}
	}
	if !s.WaitTimeout(2*time.Hour, hs...) {
		s.Fail("deadlock", s.BlockedSitesOf(hs...), "awaiters did not return")
	}
	for _, g := range results {
		if o := c09of(g.v, g.err); kind != "all" && o != got1 {
			s.Fail("oracle", "settle-once:awaiters-disagree", fmt.Sprintf("an awaiter got %v but the future is %v", o, got1))
		}
	}
	s.Probe("sequenced-" + kind)
}

// ---------------------------------------------------------------------------------------------
// (B) generated async/await programs through the real server

type c09prog struct {
	src    string
	tagged bool // blocks communicate only through await
}

func c09gen(s *sim.Sim, interp bool) c09prog {
	var b strings.Builder
	tagged := s.Choose(sim.SWork, 4) != 0
	npre := 1 + s.Choose(sim.SWork, 3)
	var pre []string
	b.WriteString("@ GET /p {\n")
	for i := 0; i < npre; i++ {
		name := fmt.Sprintf("a%d", i)
		pre = append(pre, name)
		fmt.Fprintf(&b, "  $ %s = %d\n", name, 1+s.Choose(sim.SWork, 20))
	}
	// objects shared between parent and blocks (interpreter only: the compiler has no field
	// assignment). A program that assigns to a field of an object a block can see is not
	// "await-only", but it must still run without data races.
	shareObj := interp && !tagged && s.Choose(sim.SWork, 2) == 0
	if shareObj {
		fmt.Fprintf(&b, "  $ o = {a: %d, b: %d}\n", 1+s.Choose(sim.SWork, 9), 1+s.Choose(sim.SWork, 9))
	}
	// ... or an object that is still empty when the blocks are spawned and is filled afterwards,
	// by the parent and by the blocks (write-only on both sides: nobody reads a field that may
	// not be there yet)
	emptyObj := interp && !tagged && !shareObj && s.Choose(sim.SWork, 2) == 0
	if emptyObj {
		b.WriteString("  $ acc = {}\n")
	}
	nblocks := 1 + s.Choose(sim.SWork, 4)
	var futs []string
	nextParent := 0
	parentStmt := func() {
		// parent keeps declaring / assigning while blocks run
		if emptyObj && s.Choose(sim.SWork, 2) == 0 {
			fmt.Fprintf(&b, "  $ acc.p%d = %s\n", s.Choose(sim.SWork, 3), pre[s.Choose(sim.SWork, len(pre))])
			return
		}
		if shareObj && s.Choose(sim.SWork, 2) == 0 {
			// the parent assigns to a field of the shared object while blocks run
			fmt.Fprintf(&b, "  $ o.%s = %s + %d\n", []string{"a", "b", "c"}[s.Choose(sim.SWork, 3)], pre[s.Choose(sim.SWork, len(pre))], s.Choose(sim.SWork, 9))
			return
		}
		switch s.Choose(sim.SWork, 3) {
		case 0:
			name := fmt.Sprintf("p%d", nextParent)
			nextParent++
			fmt.Fprintf(&b, "  $ %s = %s + %d\n", name, pre[s.Choose(sim.SWork, len(pre))], s.Choose(sim.SWork, 9))
			pre = append(pre, name)
		case 1:
			if !tagged {
				// reassign a variable that blocks may be reading: shared-state communication
				fmt.Fprintf(&b, "  %s = %s + 1\n", pre[s.Choose(sim.SWork, len(pre))], pre[s.Choose(sim.SWork, len(pre))])
			} else {
				name := fmt.Sprintf("p%d", nextParent)
				nextParent++
				fmt.Fprintf(&b, "  $ %s = %d\n", name, s.Choose(sim.SWork, 50))
				// not added to pre: blocks spawned earlier never see it, later blocks may
				pre = append(pre, name)
			}
		}
	}
	var block func(id string, depth int, indent string) string
	block = func(id string, depth int, indent string) string {
		var bb strings.Builder
		x := id + "_x"
		readable := append([]string(nil), pre...)
		fmt.Fprintf(&bb, "%s  $ %s = %s + %d\n", indent, x, readable[s.Choose(sim.SWork, len(readable))], s.Choose(sim.SWork, 7))
		if emptyObj && s.Choose(sim.SWork, 2) == 0 {
			fmt.Fprintf(&bb, "%s  $ acc.b%s = %s\n", indent, id, x)
		}
		if shareObj {
			switch s.Choose(sim.SWork, 3) {
			case 0: // the block reads the shared object
				fmt.Fprintf(&bb, "%s  %s = %s + o.a\n", indent, x, x)
			case 1: // the block assigns to it
				fmt.Fprintf(&bb, "%s  $ o.b = %s\n", indent, x)
			}
		}
		switch s.Choose(sim.SWork, 4) {
		case 0:
			i := id + "_i"
			fmt.Fprintf(&bb, "%s  $ %s = 0\n%s  while %s < %d {\n%s    %s = %s + %s\n%s    %s = %s + 1\n%s  }\n", indent, i, indent, i, 1+s.Choose(sim.SWork, 4), indent, x, x, i, indent, i, i, indent)
		case 1:
			fmt.Fprintf(&bb, "%s  for %s_e in [1, 2, 3] {\n%s    %s = %s + %s_e\n%s  }\n", indent, id, indent, x, x, id, indent)
		}
		if depth < 2 && s.Choose(sim.SWork, 4) == 0 {
			inner := id + "n"
			fmt.Fprintf(&bb, "%s  $ %s = async {\n%s%s  }\n", indent, inner, block(inner+"b", depth+1, indent+"  "), indent)
			fmt.Fprintf(&bb, "%s  $ %s_r = await %s\n%s  %s = %s + %s_r\n", indent, inner, inner, indent, x, x, inner)
		}
		if !tagged && s.Choose(sim.SWork, 3) == 0 {
			// write an outer variable from inside the block
			fmt.Fprintf(&bb, "%s  %s = %s\n", indent, pre[s.Choose(sim.SWork, len(pre))], x)
		}
		if s.Choose(sim.SWork, 3) == 0 {
			fmt.Fprintf(&bb, "%s  if %s > %d {\n%s    > %s * 2\n%s  } else {\n%s    > %s\n%s  }\n", indent, x, 5+s.Choose(sim.SWork, 20), indent, x, indent, indent, x, indent)
		} else {
			fmt.Fprintf(&bb, "%s  > %s\n", indent, x)
		}
		return bb.String()
	}
	for k := 0; k < nblocks; k++ {
		f := fmt.Sprintf("f%d", k)
		futs = append(futs, f)
		fmt.Fprintf(&b, "  $ %s = async {\n%s  }\n", f, block(f+"b", 1, "  "))
		for j := s.Choose(sim.SWork, 3); j > 0; j-- {
			parentStmt()
		}
	}
	// awaits in any order, some repeated, some blocks never awaited
	var fields []string
	na := s.Choose(sim.SWork, len(futs)+2)
	for k := 0; k < na; k++ {
		f := futs[s.Choose(sim.SWork, len(futs))]
		r := fmt.Sprintf("r%d", k)
		fmt.Fprintf(&b, "  $ %s = await %s\n", r, f)
		fields = append(fields, fmt.Sprintf("%s: %s", r, r))
	}
	for _, v := range pre {
		if s.Choose(sim.SWork, 2) == 0 {
			fields = append(fields, fmt.Sprintf("%s: %s", v, v))
		}
	}
	if len(fields) == 0 {
		fields = append(fields, "ok: true")
	}
	fmt.Fprintf(&b, "  > {%s}\n}\n", strings.Join(fields, ", "))
	return c09prog{src: b.String(), tagged: tagged}
}

func c09Programs(s *sim.Sim, p *sim.Params) {
	interp := s.Choose(sim.SWork, 2) == 1
	pg := c09gen(s, interp)
	var sample []string
	defer func() { s.Note("sample", sample) }()
	sample = append(sample, fmt.Sprintf("mode=program interpreter=%v tagged=%v", interp, pg.tagged), pg.src)
	// fixed companion routes with known answers: a block that fails in the middle of an expression,
	// a block that returns nothing, and (interpreter only: it needs field assignment) a future
	// awaited twice whose first result is changed in between
	base := 3 + s.Choose(sim.SWork, 40)
	extra := fmt.Sprintf(`
@ GET /e {
  $ secret = %d
  $ zero = 0
  $ f = async {
    > secret + (10 / zero)
  }
  $ r = await f
  > {route: "e", r: r}
}

@ GET /n {
  $ f = async {
    $ k = %d
  }
  $ r = await f
  > {route: "n", r: r}
}
`, 424200+base, base)
	// blocks spawned in a loop, one per iteration, awaited after the loop: each keeps the loop
	// variable and the body's locals of its own iteration
	extra += `
@ GET /loop {
  $ fs = []
  for x in [1, 2, 3] {
    $ y = x * 10
    $ f = async {
      $ i = 0
      while i < 3 {
        i = i + 1
      }
      > y + x
    }
    fs = fs + [f]
  }
  $ total = 0
  for g in fs {
    $ r = await g
    total = total + r
  }
  > {route: "loop", total: total}
}
`
	if interp {
		extra += fmt.Sprintf(`
@ GET /twice {
  $ f = async {
    > {a: %d, tags: ["x"]}
  }
  $ first = await f
  $ first.a = first.a + 100
  $ second = await f
  > {route: "twice", first: first.a, second: second.a}
}
`, base)
	}
	// many blocks of one request, each recursing on its own (every one of them, alone, stays far
	// below the evaluator's depth limit): how many of them overlap is the scheduler's business
	fanBlocks, fanDepth := 6+s.Choose(sim.SWork, 10), []int{20, 45, 70}[s.Choose(sim.SWork, 3)]
	if s.Choose(sim.SWork, 5) == 0 {
		fanBlocks, fanDepth = 66+s.Choose(sim.SWork, 20), 12 // a crowd of blocks, each waiting for an inner block
	}
	// an array built by concatenation, captured by a block, then extended by the parent and by
	// the block: each gets its own extension of what was captured
	extra += `
@ GET /arr {
  $ log = [1]
  log = log + [2]
  log = log + [3]
  $ f = async {
    $ mine = log + [100]
    > mine
  }
  log = log + [5]
  $ g = async {
    > log + [200]
  }
  $ r = await f
  $ q = await g
  log = log + [6]
  > {route: "arr", log: log, r: r, q: q}
}
`
	if interp {
		extra += fmt.Sprintf(`
! dive(n: int): int {
  if n <= 0 {
    > 0
  }
  > 1 + dive(n - 1)
}

@ GET /fan {
  $ gate = async {
    > dive(150)
  }
  $ fs = []
  for x in [%s] {
    $ f = async {
      $ opened = await gate
      $ inner = async {
        > dive(%d)
      }
      $ v = await inner
      > v + x
    }
    fs = fs + [f]
  }
  $ total = 0
  for g in fs {
    $ r = await g
    total = total + r
  }
  > {route: "fan", total: total}
}
`, strings.TrimSuffix(strings.Repeat("1, ", fanBlocks), ", "), fanDepth)
	}
	sv, err := simBuildServer(pg.src+extra, interp)
	if err != nil {
		// the generator must only produce loadable programs; treat as infrastructure trouble
		s.InfraFail("C09: generated program does not load: " + err.Error() + "\n" + pg.src + extra)
	}
	// what a block that returns nothing yields is the engine's business (the two engines differ);
	// whatever it is, it is the same every time: the first answer, before any block has failed
	nRef := sv.do(simReq{path: "/n", remote: "10.0.0.2:1"})
	if nRef.status != 200 {
		s.Fail("oracle", "block-value:no-return", fmt.Sprintf("awaiting a block that returns nothing answered %d %s", nRef.status, strings.TrimSpace(nRef.body)))
	}
	companions := func(when string) {
		for i := 0; i < 2; i++ {
			e := sv.do(simReq{path: "/e", remote: "10.0.0.2:1"})
			if e.status == 200 {
				s.Fail("oracle", "block-error-lost", fmt.Sprintf("%s: a block that divides by zero was awaited and the route answered 200 %s: await must raise the block's error", when, strings.TrimSpace(e.body)))
			}
			n := sv.do(simReq{path: "/n", remote: "10.0.0.2:1"})
			if n.status != nRef.status || n.body != nRef.body {
				s.Fail("oracle", "block-value:no-return", fmt.Sprintf("%s: awaiting a block that returns nothing answered %d %s; the first time (before any block had failed) it answered %d %s (interpreter=%v)", when, n.status, strings.TrimSpace(n.body), nRef.status, strings.TrimSpace(nRef.body), interp))
			}
		}
		lp := sv.do(simReq{path: "/loop", remote: "10.0.0.2:1"})
		if lp.status == 200 {
			s.Probe("loop-spawned-blocks-checked")
			if !strings.Contains(lp.body, `"total":66`) {
				s.Fail("oracle", "block-value:spawned-in-loop", fmt.Sprintf("%s: three blocks spawned in a loop (each returns y + x of its own iteration: 11, 22, 33) sum to %s, want total = 66 (interpreter=%v)", when, strings.TrimSpace(lp.body), interp))
			}
		} else {
			s.Probe("loop-route-not-supported-by-this-engine")
		}
		if interp {
			tw := sv.do(simReq{path: "/twice", remote: "10.0.0.2:1"})
			want := fmt.Sprintf(`"first":%d`, base+100)
			want2 := fmt.Sprintf(`"second":%d`, base)
			if tw.status != 200 || !strings.Contains(tw.body, want) || !strings.Contains(tw.body, want2) {
				s.Fail("oracle", "block-value:awaited-twice", fmt.Sprintf("%s: a future awaited twice, the first result changed in between, answered %d %s; want first=%d second=%d", when, tw.status, strings.TrimSpace(tw.body), base+100, base))
			}
		}
		ar := sv.do(simReq{path: "/arr", remote: "10.0.0.2:1"})
		if ar.status == 200 {
			s.Probe("captured-array-checked")
			for _, want := range []string{`"log":[1,2,3,5,6]`, `"r":[1,2,3,100]`, `"q":[1,2,3,5,200]`} {
				if !strings.Contains(ar.body, want) {
					s.Fail("oracle", "block-value:captured-array", fmt.Sprintf("%s: an array captured by two blocks and extended by each of them and by the parent: the route answered %s, want %s in it (interpreter=%v)", when, strings.TrimSpace(ar.body), want, interp))
				}
			}
		} else {
			s.Probe("arr-route-not-supported-by-this-engine")
		}
		if interp {
			fan := sv.do(simReq{path: "/fan", remote: "10.0.0.2:1"})
			if want := fmt.Sprintf(`"total":%d`, fanBlocks*(fanDepth+1)); fan.status != 200 || !strings.Contains(fan.body, want) {
				s.Fail("oracle", "block-value:fan-out", fmt.Sprintf("%s: %d blocks of one request, each computing dive(%d) + 1 (a recursion %d deep), were awaited in turn and the route answered %d %s; want %s\n%s", when, fanBlocks, fanDepth, fanDepth, fan.status, strings.TrimSpace(fan.body), want, simLogTail()))
			}
			s.Probe("fan-out-checked")
		}
		s.Probe("companion-routes-checked")
	}
	companions("before the generated program")
	if strings.Contains(pg.src, "$ o = {") || strings.Contains(pg.src, "$ acc = {}") {
		s.Probe("program:shares-object")
	}
	if sv.compiled {
		s.Probe("program:compiled")
	} else {
		s.Probe("program:interpreted")
	}
	// reference: the same request under a non-preemptive schedule
	prev := s.SetStrategy(sim.StratRunBlock)
	ref := sv.do(simReq{path: "/p", remote: "10.0.0.1:1"})
	s.Quiesce(0)
	s.SetStrategy(prev)
	sample = append(sample, fmt.Sprintf("reference -> %d %s", ref.status, strings.TrimSpace(ref.body)))
	if ref.status != 200 {
		// generated programs only use int arithmetic on defined variables: they must succeed
		s.Fail("oracle", "block-value:program-fails-sequentially", fmt.Sprintf("generated program answered %d %s even under the sequential schedule (interpreter=%v)\n%s\n%s", ref.status, strings.TrimSpace(ref.body), interp, simLogTail(), pg.src))
	}
	if pg.tagged && !interp {
		// the other engine, same sequential schedule: await must yield the block's value in both
		if sv2, err := simBuildServer(pg.src, true); err == nil {
			prev := s.SetStrategy(sim.StratRunBlock)
			ref2 := sv2.do(simReq{path: "/p", remote: "10.0.0.1:1"})
			s.Quiesce(0)
			s.SetStrategy(prev)
			if ref2.status != ref.status || ref2.body != ref.body {
				s.Fail("oracle", "block-value:engines-disagree", fmt.Sprintf("sequential schedule: compiled answered %d %s, interpreter answered %d %s\n%s", ref.status, strings.TrimSpace(ref.body), ref2.status, strings.TrimSpace(ref2.body), pg.src))
			}
			s.Probe("program:engines-compared")
		}
	}
	k := 3 + s.Choose(sim.SWork, 4)
	var resps []simResp
	for i := 0; i < k; i++ {
		r := sv.do(simReq{path: "/p", remote: "10.0.0.1:1"})
		resps = append(resps, r)
		sample = append(sample, fmt.Sprintf("run %d -> %d %s", i, r.status, strings.TrimSpace(r.body)))
		if s.Choose(sim.SWork, 2) == 0 {
			s.Quiesce(0) // let un-awaited blocks of this execution finish before the next one
		}
	}
	companions("after the generated program")
	s.Quiesce(31 * time.Second)
	if pg.tagged {
		s.Probe("program:await-only")
		for i, r := range resps {
			if r.status != ref.status || r.body != ref.body {
				s.Fail("oracle", "schedule-dependent-result", fmt.Sprintf("a program whose blocks communicate only through await answered %d %s under the sequential schedule but %d %s in execution %d\n%s", ref.status, strings.TrimSpace(ref.body), r.status, strings.TrimSpace(r.body), i, pg.src))
			}
		}
	}
	for _, r := range append(resps, ref) {
		if r.status != 200 {
			s.Fail("oracle", "program-failed", fmt.Sprintf("generated program answered %d %s\n%s", r.status, strings.TrimSpace(r.body), pg.src))
		}
	}
	// no task may remain except those parked forever by design (hub loop, cleanup tickers)
	for _, name := range s.LiveTasks() {
		if strings.Contains(name, "evaluateAsyncExpr") || strings.Contains(name, "execAsync") {
			s.Fail("oracle", "async-task-leaked", "an async block task is still alive after quiescence: "+name)
		}
	}
}
