package vm

// Overlay-only file added to pkg/vm by the C09 harness (never committed to /repo): lets the
// harness give a VM a host builtin, as an embedding program can do in-package. Nothing else.

// SimSetBuiltin registers a host function under name.
func (vm *VM) SimSetBuiltin(name string, f BuiltinFunc) { vm.builtins[name] = f }
