package main

// (C) C09, pooled VM: a host that keeps one VM and calls Reset between executions (the reuse the
// VM's API offers) while async blocks of earlier executions are still running. A block runs on a
// snapshot of the VM taken when it was spawned, so whatever the VM goes on to execute, the block's
// future must settle with the value the same program yields on a fresh VM of its own.

import (
	"encoding/json"
	"fmt"
	"strings"
	"time"

	"github.com/glyphlang/glyph/pkg/ast"
	"github.com/glyphlang/glyph/pkg/compiler"
	"github.com/glyphlang/glyph/pkg/vm"
	sim "github.com/glyphlang/glyph/pkg/zzsimrt"
)

type c09vmprog struct {
	src  string
	code []byte
	want string // JSON of the block's value when the program runs alone on a fresh VM
}

func c09vmSource(s *sim.Sim, idx int) string {
	word := []string{"amber", "birch", "cedar", "dune", "ember"}[s.Choose(sim.SWork, 5)]
	sep := []string{"-", "+", ".", "~"}[s.Choose(sim.SWork, 4)]
	loops := 2 + s.Choose(sim.SWork, 5)
	mul := 2 + s.Choose(sim.SWork, 7)
	base := 1 + s.Choose(sim.SWork, 40)
	var b strings.Builder
	fmt.Fprintf(&b, "@ GET /p%d {\n  $ base = %d\n  $ label = \"%s%d\"\n", idx, base, word, idx)
	b.WriteString("  $ f = async {\n    $ i = 0\n")
	fmt.Fprintf(&b, "    $ acc = \"%s\"\n    $ total = 0\n", word)
	fmt.Fprintf(&b, "    while i < %d {\n      acc = acc + \"%s\" + label\n      total = total + base * %d\n      i = i + 1\n    }\n", loops, sep, mul)
	if s.Choose(sim.SWork, 2) == 0 {
		fmt.Fprintf(&b, "    $ parts = []\n    for x in [%d, %d, %d] {\n      parts = parts + [x + base]\n    }\n", idx+1, idx+2, idx+3)
		fmt.Fprintf(&b, "    > {prog: %d, acc: acc, total: total, parts: parts, word: upper(\"%s\")}\n", idx, word)
	} else {
		fmt.Fprintf(&b, "    > {prog: %d, acc: acc, total: total, word: upper(\"%s\")}\n", idx, word)
	}
	b.WriteString("  }\n")
	if s.Choose(sim.SWork, 3) == 0 {
		// a second block, awaited: the execution itself also depends on block results
		fmt.Fprintf(&b, "  $ g = async {\n    > base + %d\n  }\n  $ gv = await g\n  > {fut: f, prog: %d, g: gv}\n}\n", idx, idx)
	} else {
		fmt.Fprintf(&b, "  > {fut: f, prog: %d}\n}\n", idx)
	}
	return b.String()
}

func c09vmCompile(s *sim.Sim, src string) []byte {
	mod, err := parseSource(src)
	if err != nil {
		s.InfraFail("C09 pooled VM: generated program does not parse: " + err.Error() + "\n" + src)
	}
	for _, it := range mod.Items {
		if r, ok := it.(*ast.Route); ok {
			bc, err := compiler.NewCompilerWithOptLevel(compiler.OptBasic).CompileRoute(r)
			if err != nil {
				s.InfraFail("C09 pooled VM: generated program does not compile: " + err.Error() + "\n" + src)
			}
			return bc
		}
	}
	s.InfraFail("C09 pooled VM: no route in generated program")
	return nil
}

func c09vmFuture(v vm.Value) *vm.FutureValue {
	if o, ok := v.(vm.ObjectValue); ok {
		if f, ok := o.Val["fut"].(*vm.FutureValue); ok {
			return f
		}
	}
	return nil
}

func c09vmAwait(s *sim.Sim, f *vm.FutureValue) (string, error) {
	val, err := f.Await()
	if err != nil {
		return "", err
	}
	b, jerr := json.Marshal(val)
	if jerr != nil {
		return "", jerr
	}
	return string(b), nil
}

func c09PooledVM(s *sim.Sim, p *sim.Params) {
	var sample []string
	defer func() { s.Note("sample", sample) }()
	n := 2 + s.Choose(sim.SWork, 3)
	progs := make([]c09vmprog, n)
	// reference: every program alone, on a VM of its own, under a non-preemptive schedule
	prev := s.SetStrategy(sim.StratRunBlock)
	for i := range progs {
		progs[i].src = c09vmSource(s, i)
		progs[i].code = c09vmCompile(s, progs[i].src)
		m := vm.NewVM()
		res, err := m.Execute(progs[i].code)
		if err != nil {
			s.InfraFail(fmt.Sprintf("C09 pooled VM: program %d fails alone: %v\n%s", i, err, progs[i].src))
		}
		f := c09vmFuture(res)
		if f == nil {
			s.InfraFail(fmt.Sprintf("C09 pooled VM: program %d did not return its future: %v", i, res))
		}
		want, err := c09vmAwait(s, f)
		if err != nil {
			s.InfraFail(fmt.Sprintf("C09 pooled VM: block of program %d fails alone: %v", i, err))
		}
		progs[i].want = want
	}
	s.SetStrategy(prev)
	sample = append(sample, fmt.Sprintf("mode=pooled-vm programs=%d", n), progs[0].src)
	// the host: one VM, Reset between executions, futures collected and awaited at the end
	shared := vm.NewVM()
	futs := make([]*vm.FutureValue, n)
	host := s.Spawn("host", func() {
		for i := range progs {
			if i > 0 {
				shared.Reset()
				s.Probe("vm-reset-with-blocks-possibly-running")
			}
			s.Op(fmt.Sprintf("execute program %d", i))
			res, err := shared.Execute(progs[i].code)
			if err != nil {
				s.Fail("oracle", "pooled-vm:execute-failed", fmt.Sprintf("program %d failed on the reused VM: %v (alone it runs)\n%s", i, err, progs[i].src))
			}
			futs[i] = c09vmFuture(res)
			if futs[i] == nil {
				s.Fail("oracle", "pooled-vm:execute-failed", fmt.Sprintf("program %d on the reused VM did not return its future: %v", i, res))
			}
		}
	})
	if !s.WaitTimeout(5*time.Minute, host) {
		s.Fail("deadlock", s.BlockedSitesOf(host), "executions on the reused VM did not complete: "+s.BlockedSummary())
	}
	if s.Choose(sim.SWork, 3) == 0 {
		// the host comes back for the results much later (a minute: longer than any await waits)
		s.Sleep([]time.Duration{31 * time.Second, time.Minute, 10 * time.Minute}[s.Choose(sim.SWork, 3)])
		s.Probe("results-collected-much-later")
	}
	for i, f := range futs {
		got, err := c09vmAwait(s, f)
		// every await of the same future yields the same, whenever it is made
		for k := 0; k < 3; k++ {
			again, err2 := c09vmAwait(s, f)
			if again != got || fmt.Sprint(err2) != fmt.Sprint(err) {
				s.Fail("oracle", "pooled-vm:awaits-disagree", fmt.Sprintf("the future of program %d yielded %s (err=%v) to one await and %s (err=%v) to a later one", i, got, err, again, err2))
			}
		}
		sample = append(sample, fmt.Sprintf("program %d: block -> %s err=%v (alone: %s)", i, got, err, progs[i].want))
		if err != nil {
			s.Fail("oracle", "pooled-vm:block-failed", fmt.Sprintf("the block of program %d failed with %v on a VM that was reset and reused while it ran; alone it yields %s\n%s", i, err, progs[i].want, progs[i].src))
		}
		if got != progs[i].want {
			s.Fail("oracle", "pooled-vm:block-value", fmt.Sprintf("the block of program %d yields %s on a VM that was reset and reused while it ran, but %s on a VM of its own\n%s", i, got, progs[i].want, progs[i].src))
		}
	}
	s.Probe("pooled-vm-run")
	c09vmPanickingBlock(s)
}

// c09vmPanickingBlock: a block whose body panics (a host builtin that misbehaves) must make every
// awaiter's await raise — the same error for all of them, whenever they arrive.
func c09vmPanickingBlock(s *sim.Sim) {
	src := "@ GET /boom {\n  $ f = async {\n    > host.query(1)\n  }\n  > {fut: f}\n}\n"
	code := c09vmCompile(s, src)
	m := vm.NewVM()
	m.SimSetBuiltin("host.query", func(args []vm.Value) (vm.Value, error) {
		var rows map[string]int
		rows["n"] = 1 // nil map: a run-time panic inside the host function
		return vm.NullValue{}, nil
	})
	res, err := m.Execute(code)
	if err != nil {
		s.InfraFail("C09 pooled VM: the panicking-block program failed to start: " + err.Error())
	}
	f := c09vmFuture(res)
	if f == nil {
		s.InfraFail("C09 pooled VM: the panicking-block program did not return its future")
	}
	n := 2 + s.Choose(sim.SWork, 3)
	errs := make([]string, n)
	var hs []*sim.Handle
	for i := 0; i < n; i++ {
		i := i
		hs = append(hs, s.Spawn(fmt.Sprintf("awaiter#%d", i), func() {
			val, err := f.Await()
			if err == nil {
				errs[i] = fmt.Sprintf("no error, value %v", val)
			} else {
				errs[i] = "error: " + err.Error()
			}
		}))
	}
	if !s.WaitTimeout(2*time.Minute, hs...) {
		s.Fail("deadlock", s.BlockedSitesOf(hs...), "awaiters of a panicking block did not return: "+s.BlockedSummary())
	}
	for i, e := range errs {
		if !strings.HasPrefix(e, "error: ") || e != errs[0] {
			s.Fail("oracle", "vm-future:panicking-block", fmt.Sprintf("the block panicked; awaiter %d got %q, awaiter 0 got %q: every await must raise the block's error, the same for all", i, e, errs[0]))
		}
	}
	s.Probe("panicking-block-awaited")
}
