package main

// shared helpers of the glyphsim harnesses that live in cmd/glyph (C06, C08, C11, C19).
// Injected at check time (go test -overlay); never committed to /repo.

import (
	"errors"
	"fmt"
	"io"
	"log"
	"net/http"
	"net/http/httptest"
	"os"
	"strings"

	"github.com/fatih/color"
)

// simLog keeps the tail of what the server printed (errors of failed handlers end up here).
type simLogBuf struct{ b []byte }

func (l *simLogBuf) Write(p []byte) (int, error) {
	l.b = append(l.b, p...)
	if len(l.b) > 4096 {
		l.b = l.b[len(l.b)-2048:]
	}
	return len(p), nil
}

var simLog = &simLogBuf{}

func simLogTail() string { return string(simLog.b) }

func simQuiet() {
	color.NoColor = true
	color.Output = simLog
	color.Error = simLog
	log.SetOutput(io.Discard)
	if f, err := os.OpenFile(os.DevNull, os.O_WRONLY, 0); err == nil {
		os.Stdout = f
	}
}

// simServer is one server instance built by the real pipeline:
// parseSource -> setupRoutes -> createHandler, mounted the way startServer mounts it (a ServeMux
// behind loggingMiddleware).
type simServer struct {
	handler  http.HandlerFunc
	compiled bool
}

func simBuildServer(src string, forceInterp bool) (*simServer, error) {
	module, err := parseSource(src)
	if err != nil {
		return nil, err
	}
	useCompiler, _, _, router, err := setupRoutes(module, "/nonexistent/sim.glyph", forceInterp)
	if err != nil {
		return nil, err
	}
	mux := http.NewServeMux()
	mux.HandleFunc("/", createHandler(router))
	return &simServer{handler: loggingMiddleware(mux).ServeHTTP, compiled: useCompiler}, nil
}

type simReq struct {
	method  string
	path    string
	remote  string
	headers [][2]string
	body    string
	// abortOK: a panic while serving this request is contained the way net/http contains it (the
	// connection is dropped, the process goes on); used only for requests the program under test
	// is known to be unable to evaluate. Every other panic is reported by the simulator.
	abortOK bool
	// hangup: the client has gone away when the response is written (every Write fails)
	hangup bool
}

type simResp struct {
	status int
	body   string
}

func (sv *simServer) do(r simReq) simResp {
	var body io.Reader
	if r.body != "" {
		body = strings.NewReader(r.body)
	}
	m := r.method
	if m == "" {
		m = "GET"
	}
	req := httptest.NewRequest(m, r.path, body)
	if r.remote != "" {
		req.RemoteAddr = r.remote
	}
	for _, h := range r.headers {
		req.Header.Add(h[0], h[1])
	}
	if r.body != "" {
		req.Header.Set("Content-Type", "application/json")
	}
	rec := httptest.NewRecorder()
	if r.abortOK {
		aborted := ""
		func() {
			defer func() {
				if p := recover(); p != nil {
					aborted = fmt.Sprint(p)
				}
			}()
			sv.handler(rec, req)
		}()
		if aborted != "" {
			return simResp{status: 0, body: "connection dropped: " + aborted}
		}
		return simResp{status: rec.Code, body: rec.Body.String()}
	}
	if r.hangup {
		// the client is gone by the time the response is written: every write fails
		w := &simGoneWriter{hdr: http.Header{}}
		sv.handler(w, req)
		return simResp{status: w.code, body: ""}
	}
	sv.handler(rec, req)
	return simResp{status: rec.Code, body: rec.Body.String()}
}

// simGoneWriter is the ResponseWriter of a connection whose peer has hung up.
type simGoneWriter struct {
	hdr  http.Header
	code int
}

func (w *simGoneWriter) Header() http.Header { return w.hdr }
func (w *simGoneWriter) WriteHeader(code int) {
	if w.code == 0 {
		w.code = code
	}
}
func (w *simGoneWriter) Write(b []byte) (int, error) {
	if w.code == 0 {
		w.code = 200
	}
	return 0, errors.New("write tcp 10.0.0.1:8080->10.2.0.1:1000: write: broken pipe")
}
