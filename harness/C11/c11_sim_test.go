package main

// glyphsim harness for property C11 — "rate limits bound admitted traffic per client".
// Injected into cmd/glyph at check time; never committed to /repo.

import (
	"context"
	"fmt"
	"net/http"
	"net/http/httptest"
	"sort"
	"strings"
	"testing"
	"time"

	"github.com/glyphlang/glyph/pkg/server"
	sim "github.com/glyphlang/glyph/pkg/zzsimrt"
)

func TestSim(t *testing.T) {
	simQuiet()
	sim.WorkerMain(t, map[string]sim.HarnessFunc{"C11": c11Run})
}

const c11Marker = "body-ran-7f3a"

type c11hangKey struct{}

type c11rec struct {
	client  int
	ident   string // identity the property assigns to this request
	at      time.Duration
	status  int
	ranBody bool
	conform bool // issued by a conforming generator
}

type c11sys struct {
	n       int           // bucket size / requests per window
	rate    float64       // tokens per nanosecond
	window  time.Duration // declared window
	unit    string
	direct  bool
	do      func(remote string, hdr [][2]string, second bool) (int, bool) // second: the other route with the same declaration
	free    func(remote string, second bool) (int, bool)                  // the same path under the verb that declares no limit (nil in direct mode)
	trust   bool
	trusted map[string]bool
	decl    string
}

func (y *c11sys) identity(remote string, hdr [][2]string) string {
	host := remote
	if i := strings.LastIndexByte(remote, ':'); i >= 0 {
		host = remote[:i]
	}
	if !y.trust {
		return host
	}
	if len(y.trusted) > 0 && !y.trusted[host] {
		return host
	}
	for _, h := range hdr {
		if h[0] == "X-Forwarded-For" && h[1] != "" {
			return strings.TrimSpace(strings.Split(h[1], ",")[0])
		}
	}
	for _, h := range hdr {
		if h[0] == "X-Real-IP" && h[1] != "" {
			return h[1]
		}
	}
	return host
}

var c11units = []struct {
	name string
	w    time.Duration
}{{"min", time.Minute}, {"min", time.Minute}, {"min", time.Minute}, {"sec", time.Second}, {"hour", time.Hour}, {"day", 24 * time.Hour}}

// c11aliases: the other names each window unit is accepted under
var c11aliases = map[string][]string{
	"sec":  {"second", "s"},
	"min":  {"minute", "m"},
	"hour": {"hr", "h"},
	"day":  {"d"},
}

func c11build(s *sim.Sim, p *sim.Params) (*c11sys, func() *c11sys) {
	y := &c11sys{}
	y.n = []int{1, 2, 3, 5, 10, 30, 60, 200, 90, 119, 2000}[s.Choose(sim.SWork, 11)]
	y.direct = s.Choose(sim.SWork, 10) < 3
	if p.Knob("direct", -1) >= 0 {
		y.direct = p.Knob("direct", 0) == 1
	}
	if y.direct {
		y.unit, y.window = "direct", time.Minute
		y.trust = s.Choose(sim.SWork, 2) == 1
		if y.trust && s.Choose(sim.SWork, 2) == 1 {
			y.trusted = map[string]bool{"10.9.9.9": true}
			// entries that are not plain addresses (a range, a host name, an address with a port)
			// name no client of this workload under any reading: the list stays "trust only these"
			switch s.Choose(sim.SWork, 4) {
			case 1:
				y.trusted = map[string]bool{"192.0.2.0/24": true}
			case 2:
				y.trusted = map[string]bool{"proxy.internal.example": true, "192.0.2.7:8080": true}
			}
		}
		mk := func() *c11sys {
			z := *y
			var list []string
			for k := range y.trusted {
				list = append(list, k)
			}
			server.SetTrustedProxies(list)
			body := func(ctx *server.Context) error {
				// a client that hangs up while its request is being served: the request's context
				// ends after it was admitted, before the handler returns
				if hang, ok := ctx.Request.Context().Value(c11hangKey{}).(context.CancelFunc); ok {
					hang()
				}
				return server.SendJSON(ctx, http.StatusOK, map[string]interface{}{"marker": c11Marker})
			}
			lcfg := server.RateLimiterConfig{RequestsPerMinute: y.n, BurstSize: y.n, TrustProxy: y.trust}
			h1 := server.RateLimitMiddleware(lcfg)(body)
			h2 := server.RateLimitMiddleware(lcfg)(body) // a second route with the same limit has a budget of its own
			z.do = func(remote string, hdr [][2]string, second bool) (int, bool) {
				h := h1
				if second {
					h = h2
				}
				req := httptest.NewRequest("GET", "/limited", nil)
				req.RemoteAddr = remote
				for _, kv := range hdr {
					if kv[0] == "X-Sim-Hangup" {
						cctx, cancel := context.WithCancel(req.Context())
						req = req.WithContext(context.WithValue(cctx, c11hangKey{}, cancel))
					}
				}
				for _, kv := range hdr {
					req.Header.Add(kv[0], kv[1])
				}
				rec := httptest.NewRecorder()
				ctx := &server.Context{Request: req, ResponseWriter: rec, PathParams: map[string]string{}, StatusCode: http.StatusOK}
				if err := h(ctx); err != nil {
					return 500, false
				}
				return rec.Code, strings.Contains(rec.Body.String(), c11Marker)
			}
			return &z
		}
		y.rate = float64(y.n) / float64(time.Minute)
		return y, mk
	}
	u := c11units[s.Choose(sim.SWork, len(c11units))]
	if v, ok := p.Knobs["unit"]; ok {
		for _, c := range c11units {
			if c.name == v {
				u = c
			}
		}
	}
	y.unit, y.window = u.name, u.w
	y.rate = float64(y.n) / float64(u.w)
	interp := s.Choose(sim.SWork, 2) == 1
	// the declaration is spelled the ways the language accepts: bare or quoted, any letter case,
	// blanks around the unit — the declared limit is the same in all of them
	mkSrc := func(decl string) string {
		// (each limited path is also declared for another verb, without a limit: after the limited
		// verb in one case, in front of it in the other)
		return fmt.Sprintf("@ GET /limited {\n  + ratelimit(%s)\n  > {marker: \"%s\"}\n}\n\n@ POST /limited {\n  > {marker: \"free-verb\"}\n}\n\n@ GET /free {\n  > {marker: \"free\"}\n}\n\n@ GET /limited2 {\n  > {marker: \"free-verb\"}\n}\n\n@ POST /limited2 {\n  + ratelimit(%s)\n  > {marker: \"%s\"}\n}\n", decl, c11Marker, decl, c11Marker)
	}
	// ... and under any of the names the unit goes by (s, second, hr, h, d, minute, m)
	spelled := u.name
	if s.Choose(sim.SWork, 3) == 0 {
		al := c11aliases[u.name]
		spelled = al[s.Choose(sim.SWork, len(al))]
		s.Probe("unit-alias-spelled")
	}
	capUnit := strings.ToUpper(spelled[:1]) + spelled[1:]
	decl := fmt.Sprintf("%d/%s", y.n, spelled)
	switch s.Choose(sim.SWork, 8) {
	case 1:
		decl = fmt.Sprintf("\"%d/%s\"", y.n, spelled)
	case 2:
		decl = fmt.Sprintf("\"%d/%s\"", y.n, capUnit)
	case 3:
		decl = fmt.Sprintf("\"%d/%s\"", y.n, strings.ToUpper(spelled))
	case 4:
		decl = fmt.Sprintf("\"%d/ %s \"", y.n, spelled)
	case 5:
		decl = fmt.Sprintf("%d/%s", y.n, capUnit)
	}
	src := mkSrc(decl)
	if _, err := simBuildServer(src, interp); err != nil {
		// a spelling the parser does not take: fall back to the plain one
		s.Probe("declaration-spelling-not-accepted")
		decl = fmt.Sprintf("%d/%s", y.n, u.name)
		src = mkSrc(decl)
	} else if decl != fmt.Sprintf("%d/%s", y.n, u.name) {
		s.Probe("declaration-spelled-differently")
	}
	y.decl = decl
	mk := func() *c11sys {
		z := *y
		sv, err := simBuildServer(src, interp)
		if err != nil {
			s.InfraFail("C11: cannot build server: " + err.Error())
		}
		z.do = func(remote string, hdr [][2]string, second bool) (int, bool) {
			rq := simReq{path: "/limited", remote: remote, headers: hdr}
			if second {
				rq = simReq{method: "POST", path: "/limited2", remote: remote, headers: hdr}
			}
			r := sv.do(rq)
			return r.status, strings.Contains(r.body, c11Marker)
		}
		z.free = func(remote string, second bool) (int, bool) {
			rq := simReq{method: "POST", path: "/limited", remote: remote}
			if second {
				rq = simReq{path: "/limited2", remote: remote}
			}
			r := sv.do(rq)
			return r.status, strings.Contains(r.body, "free-verb")
		}
		return &z
	}
	return y, mk
}

type c11arrival struct {
	gap     time.Duration // sleep before this group
	count   int           // requests issued at this instant
	par     bool          // issue them from concurrent tasks
	conform bool
}

// c11plan draws the arrival process of one client.
func c11plan(s *sim.Sim, y *c11sys, conforming bool, budget int) []c11arrival {
	var out []c11arrival
	w := y.window
	n := y.n
	if conforming {
		// never more than n requests in any trailing window (1ms guard band): keep a deque of send times
		var sent []time.Duration
		var now time.Duration
		m := 3 + s.Choose(sim.SWork, 3*n+6)
		if m > budget {
			m = budget
		}
		for i := 0; i < m; i++ {
			var gap time.Duration
			switch s.Choose(sim.SWork, 6) {
			case 0:
				gap = 0
			case 1:
				gap = w / time.Duration(n) / 2
			case 2:
				gap = w / time.Duration(n)
			case 3:
				gap = w/time.Duration(n) + w/time.Duration(7*n)
			case 4:
				gap = time.Duration(s.Choose(sim.SWork, 1000)+1) * w / 1000
			default:
				gap = w/time.Duration(n) - w/time.Duration(9*n)
			}
			t := now + gap
			// enforce conformance
			for {
				cnt := 0
				var oldest time.Duration = -1
				for _, x := range sent {
					if x > t-w-time.Millisecond {
						if oldest < 0 {
							oldest = x
						}
						cnt++
					}
				}
				if cnt < n {
					break
				}
				t = oldest + w + 2*time.Millisecond
			}
			sent = append(sent, t)
			out = append(out, c11arrival{gap: t - now, count: 1, conform: true})
			now = t
		}
		return out
	}
	phases := 1 + s.Choose(sim.SWork, 5)
	for ph := 0; ph < phases && budget > 0; ph++ {
		switch s.Choose(sim.SWork, 5) {
		case 0: // burst
			k := 1 + s.Choose(sim.SWork, 2*n+3)
			if k > budget {
				k = budget
			}
			out = append(out, c11arrival{gap: time.Duration(s.Choose(sim.SWork, 3)) * w / 4, count: k, par: s.Choose(sim.SWork, 2) == 1})
			budget -= k
		case 1, 2: // steady stream at rho x the declared rate
			rho := []float64{0.2, 0.5, 0.9, 1.0, 1.1, 2, 3}[s.Choose(sim.SWork, 7)]
			gap := time.Duration(float64(w) / (float64(n) * rho))
			m := 2 + s.Choose(sim.SWork, 2*n+4)
			if m > budget {
				m = budget
			}
			for i := 0; i < m; i++ {
				out = append(out, c11arrival{gap: gap, count: 1})
			}
			budget -= m
		case 3: // long idle then a single request / small burst
			idle := []time.Duration{2 * w, 11 * time.Minute, 30 * w, 9*time.Minute + 59*time.Second, w + time.Millisecond}[s.Choose(sim.SWork, 5)]
			if idle > 72*time.Hour {
				idle = 72 * time.Hour
			}
			out = append(out, c11arrival{gap: idle, count: 1 + s.Choose(sim.SWork, 3)})
			budget -= 3
		default: // on/off
			for i := 0; i < 3 && budget > 0; i++ {
				k := 1 + s.Choose(sim.SWork, n+1)
				if k > budget {
					k = budget
				}
				out = append(out, c11arrival{gap: w / 2, count: k, par: true})
				budget -= k
			}
		}
	}
	return out
}

func c11Run(s *sim.Sim, p *sim.Params) {
	s.SetLimits(5_000_000, 0)
	s.SetMaxSimTime(3000 * time.Hour)
	y0, mk := c11build(s, p)
	y := mk()
	defer server.SetTrustedProxies(nil)
	nclients := 1 + s.Choose(sim.SWork, 5)
	budget := 120
	if p.Tier == "thorough" && s.Choose(sim.SWork, 10) == 0 {
		budget = 1500
		s.SetLimits(20_000_000, 0) // (thousands of requests through the whole server stack)
	}
	if y.n >= 60 {
		budget *= 3
	}
	var recs []c11rec
	var sample []string
	sample = append(sample, fmt.Sprintf("limit %d/%s (declared as ratelimit(%s)) direct=%v trustProxy=%v trustedList=%v clients=%d", y.n, y.unit, y.decl, y.direct, y.trust, len(y.trusted) > 0, nclients))
	defer func() {
		if len(sample) > 60 {
			sample = append(sample[:60], fmt.Sprintf("... %d more", len(sample)-60))
		}
		s.Note("sample", sample)
	}()
	type clientPlan struct {
		host    string
		forge   int // 0 none, 1 random XFF per request, 2 fixed XFF, 3 X-Real-IP
		plan    []c11arrival
		conform bool
		k       int
		twoRoutes bool
		hangsUp   bool
		offs      []time.Duration // when each arrival of the plan started, relative to the client's start
		replay    bool
	}
	plans := make([]clientPlan, nclients)
	v6 := s.Choose(sim.SWork, 4) == 0 // IPv6 peers whose addresses share their leading groups
	// peers on this host (a development machine, a sidecar): loopback addresses are peers like any other
	local := !y.direct && s.Choose(sim.SWork, 4) == 0
	if local {
		s.Probe("loopback-peers-run")
	}
	for i := range plans {
		plans[i].host = fmt.Sprintf("10.0.0.%d", i+1)
		if v6 {
			plans[i].host = fmt.Sprintf("[2001:db8::%x]", i+1)
		}
		if local {
			plans[i].host = fmt.Sprintf("127.0.0.%d", i+1)
			if v6 && i == 0 {
				plans[i].host = "[::1]"
			}
		}
		if y.direct && y.trust && len(y.trusted) > 0 && s.Choose(sim.SWork, 2) == 0 {
			plans[i].host = "10.9.9.9" // arrives through the trusted proxy
		}
		plans[i].forge = s.Choose(sim.SWork, 4)
		plans[i].twoRoutes = s.Choose(sim.SWork, 3) == 0
		plans[i].hangsUp = s.Choose(sim.SWork, 4) == 0
		plans[i].conform = s.Choose(sim.SWork, 3) == 0
		plans[i].plan = c11plan(s, y0, plans[i].conform, budget/nclients+1)
	}
	issue := func(y *c11sys, ci int, pl *clientPlan, conform bool, out *[]c11rec) {
		// forged values depend on the client and its own request counter only, so that the same
		// client replayed alone forges the same sequence
		pl.k++
		k := pl.k
		seq := k*7 + ci
		remote := fmt.Sprintf("%s:%d", pl.host, 40000+seq%20000)
		var hdr [][2]string
		switch pl.forge {
		case 1:
			hdr = append(hdr, [2]string{"X-Forwarded-For", fmt.Sprintf("172.16.%d.%d, 10.1.1.1", ci, k%250)})
		case 2:
			hdr = append(hdr, [2]string{"X-Forwarded-For", fmt.Sprintf("192.168.7.%d", ci+1)})
		case 3:
			hdr = append(hdr, [2]string{"X-Real-IP", fmt.Sprintf("192.168.8.%d", ci*3+k%3)})
		}
		if pl.hangsUp && y.direct && k%2 == 0 {
			hdr = append(hdr, [2]string{"X-Sim-Hangup", "1"})
			s.Fault("client-hangs-up-mid-request")
		}
		if y.free != nil && (k+2*ci)%5 == 0 {
			// the same path under its other verb, which declares no limit: never limited, and
			// no business of the limited verb's budget
			if st, ok := y.free(remote, (k+ci)%2 == 0); st != 200 || !ok {
				s.Fail("oracle", "unlimited-verb-affected:unit="+y.unit, fmt.Sprintf("client %s asked for the verb of a limited path that declares no limit and was answered %d (its own body: %v)", pl.host, st, ok))
			}
			s.Probe("unlimited-verb-of-limited-path")
		}
		at := s.Now()
		// a third of a client's requests go to the second route, which declares the same limit:
		// each route has its own budget per client, so the oracles judge (client, route) pairs
		second := pl.twoRoutes && (k+ci)%3 == 0
		st, ran := y.do(remote, hdr, second)
		id := y.identity(remote, hdr)
		if second {
			id += " on the second route"
		}
		*out = append(*out, c11rec{client: ci, ident: id, at: at, status: st, ranBody: ran, conform: conform})
	}
	runClient := func(y *c11sys, ci int, pl *clientPlan, out *[]c11rec) func() {
		return func() {
			t0 := s.Now()
			for ai, a := range pl.plan {
				if pl.replay {
					// the reference run: every arrival at the instant (relative to the client's
					// start) at which it happened in the concurrent run, late wake-ups included
					if d := pl.offs[ai] - (s.Now() - t0); d > 0 {
						s.Sleep(d)
					}
				} else {
					if a.gap > 0 {
						s.Sleep(a.gap)
					}
					pl.offs = append(pl.offs, s.Now()-t0)
				}
				if a.par && a.count > 1 {
					var hs []*sim.Handle
					for k := 0; k < a.count; k++ {
						if len(hs) == 4 {
							s.Wait(hs...)
							hs = hs[:0]
						}
						hs = append(hs, s.Spawn(fmt.Sprintf("req#%d", ci), func() { issue(y, ci, pl, a.conform, out) }))
					}
					s.Wait(hs...)
					s.Probe("concurrent-burst")
				} else {
					for k := 0; k < a.count; k++ {
						issue(y, ci, pl, a.conform, out)
					}
				}
			}
		}
	}
	// "table pressure" runs: more one-shot clients than the limiter's table is meant to hold arrive
	// first, so the workload runs against a table at capacity and its eviction path
	pressure := func(y *c11sys) {
		for k := 0; k < 10050; k++ {
			st, _ := y.do(fmt.Sprintf("10.%d.%d.%d:5000", 100+(k>>16), (k>>8)&255, k&255), nil, false)
			if st != 200 {
				s.Fail("oracle", "false-rejection:unit="+y.unit+":first-request", fmt.Sprintf("the first request ever of client #%d (of many one-shot clients) was answered %d", k, st))
			}
		}
	}
	pressureRun := s.Choose(sim.SWork, 16) == 0
	if pressureRun {
		s.Probe("limiter-table-pressure-run")
		// with the table at capacity every request may trigger an eviction pass: clients drain
		// their bucket, pause for a few token intervals and come back with another burst
		for i := range plans {
			if s.Choose(sim.SWork, 2) == 0 {
				tok := y0.window / time.Duration(y0.n)
				burst := 2*y0.n + 1
				if burst > 301 {
					burst = 301 // (enough to drain any bucket the workload's time span can refill)
				}
				plans[i].conform = false
				plans[i].plan = []c11arrival{
					{count: burst},
					{gap: tok * time.Duration(2+s.Choose(sim.SWork, 3)), count: burst, par: s.Choose(sim.SWork, 2) == 0},
					{gap: tok + tok/2, count: burst / 2},
				}
			}
		}
		pressure(y)
	}
	var hs []*sim.Handle
	for i := range plans {
		hs = append(hs, s.Spawn(fmt.Sprintf("client#%d", i), runClient(y, i, &plans[i], &recs)))
	}
	if y.direct && y.trust && len(y.trusted) > 0 && s.Choose(sim.SWork, 2) == 0 {
		// an operator's config watcher re-sends the (unchanged) trusted-proxy list every now and
		// then while requests are being served
		s.Probe("proxy-list-resent-during-requests")
		var list []string
		for k := range y.trusted {
			list = append(list, k)
		}
		sort.Strings(list)
		stop := false
		defer func() { stop = true }()
		s.Spawn("proxy-resync", func() {
			for i := 0; i < 400 && !stop; i++ {
				server.SetTrustedProxies(list)
				s.Sleep(y.window / 50)
			}
		})
	}
	s.Wait(hs...)
	c11check(s, y, recs, &sample)

	// (iv) isolation: one client's traffic alone on a fresh limiter gets the same verdicts
	if nclients > 1 {
		ci := s.Choose(sim.SWork, nclients)
		alone := mk()
		plans[ci].k = 0
		plans[ci].replay = true
		var recs2 []c11rec
		jumps := s.SetClockJumps(false)
		h := s.Spawn(fmt.Sprintf("client#%d", ci), runClient(alone, ci, &plans[ci], &recs2))
		s.Wait(h)
		s.SetClockJumps(jumps)
		a := c11admitProfile(recs, ci)
		b := c11admitProfile(recs2, ci)
		// identities may be shared between clients (same proxy identity): only compare when this client's identities are its own
		shared := false
		mine := map[string]bool{}
		for _, r := range recs {
			if r.client == ci {
				mine[r.ident] = true
			}
		}
		for _, r := range recs {
			if r.client != ci && mine[r.ident] {
				shared = true
			}
		}
		if !shared && a != b {
			s.Fail("oracle", "isolation:unit="+y.unit, fmt.Sprintf("client %d was admitted %s with other clients present but %s alone (limit %d/%s)", ci, a, b, y.n, y.unit))
		}
		s.Probe("isolation-compared")
	}
}

// c11admitProfile: number of admitted requests per distinct arrival offset (relative to the client's first request).
func c11admitProfile(recs []c11rec, ci int) string {
	var first time.Duration = -1
	type slot struct {
		off time.Duration
		adm int
	}
	var slots []slot
	for _, r := range recs {
		if r.client != ci {
			continue
		}
		if first < 0 {
			first = r.at
		}
		off := r.at - first
		if len(slots) == 0 || slots[len(slots)-1].off != off {
			slots = append(slots, slot{off: off})
		}
		if r.status != 429 {
			slots[len(slots)-1].adm++
		}
	}
	var b strings.Builder
	for _, sl := range slots {
		fmt.Fprintf(&b, "%v:%d ", sl.off, sl.adm)
	}
	return b.String()
}

func c11check(s *sim.Sim, y *c11sys, recs []c11rec, sample *[]string) {
	byIdent := map[string][]c11rec{}
	var idents []string
	for _, r := range recs {
		if _, ok := byIdent[r.ident]; !ok {
			idents = append(idents, r.ident)
		}
		byIdent[r.ident] = append(byIdent[r.ident], r)
		*sample = append(*sample, fmt.Sprintf("t=%v client=%d ident=%s -> %d", r.at, r.client, r.ident, r.status))
		// (ii) a rejected request never runs the body; an admitted one gets the route's answer
		if r.status == 429 && r.ranBody {
			s.Fail("oracle", "rejected-ran-body", fmt.Sprintf("request at %v answered 429 but the route body ran", r.at))
		}
		if r.status != 429 && r.status != 200 {
			s.Fail("oracle", "unexpected-status", fmt.Sprintf("request at %v answered %d", r.at, r.status))
		}
		if r.status == 200 && !r.ranBody {
			s.Fail("oracle", "admitted-without-body", fmt.Sprintf("request at %v answered 200 without the route's marker", r.at))
		}
	}
	sort.Strings(idents)
	for _, id := range idents {
		rs := byIdent[id]
		sort.SliceStable(rs, func(i, j int) bool { return rs[i].at < rs[j].at })
		var adm []time.Duration
		rejected := 0
		for _, r := range rs {
			if r.status != 429 {
				adm = append(adm, r.at)
			} else {
				rejected++
			}
		}
		if rejected > 0 {
			s.Probe("some-request-rejected")
		}
		// (i) every interval between two admitted requests obeys N*(1+T/window)
		for i := range adm {
			for j := i; j < len(adm); j++ {
				cnt := j - i + 1
				bound := float64(y.n) + y.rate*float64(adm[j]-adm[i])
				if float64(cnt) > bound+1e-6 {
					site := "admission-bound:unit=" + y.unit
					if c11beyondKnown(y, adm) {
						site += ":beyond-known-conversion"
					}
					s.Fail("oracle", site, fmt.Sprintf("client %s was admitted %d requests in [%v,%v] (T=%v); limit %d/%s allows at most %.3f", id, cnt, adm[i], adm[j], adm[j]-adm[i], y.n, y.unit, bound))
				}
			}
		}
		// (iii) a client that never exceeds N per trailing window is never rejected
		conform := true
		for i, r := range rs {
			cnt := 0
			for j := i; j >= 0; j-- {
				if rs[j].at > r.at-y.window-time.Millisecond/2 {
					cnt++
				}
			}
			if cnt > y.n {
				conform = false
				break
			}
		}
		if conform {
			s.Probe("conforming-client")
			if rejected > 0 {
				var at time.Duration
				for _, r := range rs {
					if r.status == 429 {
						at = r.at
						break
					}
				}
				site := "false-rejection:unit=" + y.unit
				if c11withinKnown(y, rs) {
					site += ":beyond-known-conversion"
				}
				s.Fail("oracle", site, fmt.Sprintf("client %s never sent more than %d requests in any trailing %v yet was rejected at %v (limit %d/%s, %d requests)", id, y.n, y.window, at, y.n, y.unit, len(rs)))
			}
		}
	}
}

// c11beyondKnown tells a violation of the admission bound for the units sec/hour/day that the
// listed known finding (known_findings.json: the declared window is converted to a per-minute
// budget b with burst b, b = 60N for sec, ceil(N/60) for hour, ceil(N/1440) for day) cannot
// account for: some interval admits more than a bucket of b refilled at b per minute would. Such
// a violation is a different one and is reported under its own signature.
func c11beyondKnown(y *c11sys, adm []time.Duration) bool {
	var b int
	switch y.unit {
	case "sec":
		b = 60 * y.n
	case "hour":
		b = (y.n + 59) / 60
	case "day":
		b = (y.n + 1439) / 1440
	default:
		return false
	}
	for i := range adm {
		for j := i; j < len(adm); j++ {
			if float64(j-i+1) > float64(b)*(1+float64(adm[j]-adm[i])/float64(time.Minute))+1e-6 {
				return true
			}
		}
	}
	return false
}

// c11withinKnown: for the units sec/hour/day, the client also never sent more than b requests in
// any trailing minute, b being the per-minute budget of the listed known conversion — so even the
// bucket that finding describes admits every one of its requests, and a rejection is something else.
func c11withinKnown(y *c11sys, rs []c11rec) bool {
	var b int
	switch y.unit {
	case "sec":
		b = 60 * y.n
	case "hour":
		b = (y.n + 59) / 60
	case "day":
		b = (y.n + 1439) / 1440
	default:
		return false
	}
	for i, r := range rs {
		cnt := 0
		for j := i; j >= 0; j-- {
			if rs[j].at > r.at-time.Minute-time.Millisecond/2 {
				cnt++
			}
		}
		if cnt > b {
			return false
		}
	}
	return true
}
