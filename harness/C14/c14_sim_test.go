package database

// glyphsim harness for property C14 — "database transactions are all-or-nothing".
// A fault-sequence simulation: seeded statement sequences, and for each a sweep over fault
// position x fault kind (callback faults and driver-level faults), on the fake clock.
// Injected into pkg/database at check time; never committed to /repo.

import (
	"context"
	"database/sql"
	"database/sql/driver"

	"github.com/go-sql-driver/mysql"
	"errors"
	"fmt"
	"os"
	"path/filepath"
	"sort"
	"strings"
	"sync"
	"testing"
	"time"

	sim "github.com/glyphlang/glyph/pkg/zzsimrt"
)

func TestSim(t *testing.T) {
	c14register()
	sim.WorkerMain(t, map[string]sim.HarnessFunc{"C14": c14Run})
}

// ---------------------------------------------------------------------------------------------
// fault-injecting database/sql driver around the real modernc sqlite driver

type c14plan struct {
	mu      sync.Mutex
	kind    string // "" none | exec | begin | commit-before | commit-after | rollback | badconn
	at      int    // fire at the at-th matching driver call (1-based)
	seen    int
	fired   bool
	inTxOnly bool
	stmtQueries bool // statements issued as queries (INSERT ... RETURNING) count as statements too
}

var c14faults = &c14plan{}

func (p *c14plan) arm(kind string, at int) {
	p.mu.Lock()
	p.kind, p.at, p.seen, p.fired = kind, at, 0, false
	p.mu.Unlock()
}

// hit reports whether the fault of the given driver-call class fires now.
func (p *c14plan) hit(class string) bool {
	p.mu.Lock()
	defer p.mu.Unlock()
	if p.fired || p.kind == "" {
		return false
	}
	match := false
	switch p.kind {
	case "exec", "badconn":
		match = class == "exec"
	case "begin":
		match = class == "begin"
	case "commit-before", "commit-after":
		match = class == "commit"
	case "rollback":
		match = class == "rollback"
	}
	if !match {
		return false
	}
	p.seen++
	if p.seen == p.at {
		p.fired = true
		return true
	}
	return false
}

var errInjected = errors.New("injected driver fault")

type c14driver struct{ inner driver.Driver }

func (d *c14driver) Open(name string) (driver.Conn, error) {
	c, err := d.inner.Open(name)
	if err != nil {
		return nil, err
	}
	return &c14conn{inner: c}, nil
}

type c14conn struct {
	inner driver.Conn
	inTx  bool
}

func (c *c14conn) Prepare(q string) (driver.Stmt, error) { return c.inner.Prepare(q) }
func (c *c14conn) Close() error                          { return c.inner.Close() }
func (c *c14conn) Begin() (driver.Tx, error)             { return c.BeginTx(context.Background(), driver.TxOptions{}) }

func (c *c14conn) BeginTx(ctx context.Context, opts driver.TxOptions) (driver.Tx, error) {
	if c14faults.hit("begin") {
		return nil, errInjected
	}
	tx, err := c.inner.(driver.ConnBeginTx).BeginTx(ctx, opts)
	if err != nil {
		return nil, err
	}
	c.inTx = true
	return &c14tx{c: c, inner: tx}, nil
}

func (c *c14conn) ExecContext(ctx context.Context, q string, args []driver.NamedValue) (driver.Result, error) {
	if c.inTx && c14faults.hit("exec") {
		if c14faults.kind == "badconn" {
			return nil, driver.ErrBadConn
		}
		return nil, errInjected
	}
	return c.inner.(driver.ExecerContext).ExecContext(ctx, q, args)
}

func (c *c14conn) QueryContext(ctx context.Context, q string, args []driver.NamedValue) (driver.Rows, error) {
	if c.inTx && c14faults.stmtQueries && c14faults.hit("exec") {
		if c14faults.kind == "badconn" {
			return nil, driver.ErrBadConn
		}
		return nil, errInjected
	}
	return c.inner.(driver.QueryerContext).QueryContext(ctx, q, args)
}

func (c *c14conn) PrepareContext(ctx context.Context, q string) (driver.Stmt, error) {
	return c.inner.(driver.ConnPrepareContext).PrepareContext(ctx, q)
}

func (c *c14conn) Ping(ctx context.Context) error { return c.inner.(driver.Pinger).Ping(ctx) }

func (c *c14conn) ResetSession(ctx context.Context) error {
	if r, ok := c.inner.(driver.SessionResetter); ok {
		return r.ResetSession(ctx)
	}
	return nil
}

func (c *c14conn) IsValid() bool {
	if v, ok := c.inner.(driver.Validator); ok {
		return v.IsValid()
	}
	return true
}

type c14tx struct {
	c     *c14conn
	inner driver.Tx
}

func (t *c14tx) Commit() error {
	t.c.inTx = false
	if c14faults.hit("commit") {
		if c14faults.kind == "commit-after" {
			// the commit reached the database but its acknowledgement was lost
			if err := t.inner.Commit(); err != nil {
				return err
			}
			return errInjected
		}
		// the commit never reached the database: the server side discards the transaction
		t.inner.Rollback()
		return errInjected
	}
	return t.inner.Commit()
}

func (t *c14tx) Rollback() error {
	t.c.inTx = false
	if c14faults.hit("rollback") {
		// connection trouble while rolling back: the database discards the transaction anyway
		t.inner.Rollback()
		return errInjected
	}
	return t.inner.Rollback()
}

var c14once sync.Once

func c14register() {
	c14once.Do(func() {
		db, err := sql.Open("sqlite", ":memory:")
		if err != nil {
			panic(err)
		}
		inner := db.Driver()
		db.Close()
		sql.Register("sqlitefault", &c14driver{inner: inner})
	})
}

// ---------------------------------------------------------------------------------------------
// workload

type c14stmt struct {
	kind string // insert | update | delete | dup-insert | select
	k    string
	v    int
}

type c14txn struct {
	stmts      []c14stmt
	ignoreErrs bool // callback ignores statement errors and goes on
}

type c14fault struct {
	kind string // none | cb-error | cb-panic | ctx-cancel | deadline | stmt-fail-return | driver kinds
	pos  int    // statement boundary (0..len) for callback faults; driver call ordinal otherwise
}

type c14backend struct {
	name string
	txfn func(ctx context.Context, fn func(*sql.Tx) error) error
	db   *sql.DB
	bulk func(ctx context.Context, table string, cols []string, vals [][]interface{}) error
	ph   func(i int) string
}

type c14model map[string]int

func (m c14model) clone() c14model {
	n := c14model{}
	for k, v := range m {
		n[k] = v
	}
	return n
}

func (m c14model) String() string {
	var ks []string
	for k := range m {
		ks = append(ks, k)
	}
	sort.Strings(ks)
	var b strings.Builder
	for _, k := range ks {
		fmt.Fprintf(&b, "%s=%d ", k, m[k])
	}
	return "{" + strings.TrimSpace(b.String()) + "}"
}

// short renders a table for messages without flooding them.
func (m c14model) short() string {
	x := m.String()
	if len(x) > 160 {
		return fmt.Sprintf("%s… (%d rows)", x[:160], len(m))
	}
	return x
}

func (m c14model) apply(st c14stmt) bool {
	switch st.kind {
	case "insert", "dup-insert":
		if _, ok := m[st.k]; ok {
			return false
		}
		m[st.k] = st.v
	case "update":
		if _, ok := m[st.k]; ok {
			m[st.k] = st.v
		}
	case "delete":
		delete(m, st.k)
	}
	return true
}

func c14read(db *sql.DB) (c14model, error) {
	ctx, cancel := context.WithTimeout(context.Background(), 5*time.Second)
	defer cancel()
	rows, err := db.QueryContext(ctx, "SELECT k, v FROM t")
	if err != nil {
		return nil, err
	}
	defer rows.Close()
	m := c14model{}
	for rows.Next() {
		var k string
		var v int
		if err := rows.Scan(&k, &v); err != nil {
			return nil, err
		}
		m[k] = v
	}
	return m, rows.Err()
}

type c14panic struct{ n int }

// c14canceller is a value of a bulk-insert row that ends the caller's context when the database
// layer asks for it.
type c14canceller struct {
	cancel context.CancelFunc
	v      int64
}

func (c c14canceller) Value() (driver.Value, error) {
	c.cancel()
	return c.v, nil
}

func c14Run(s *sim.Sim, p *sim.Params) {
	var sample []string
	defer func() {
		if len(sample) > 60 {
			sample = append(sample[:60], fmt.Sprintf("... %d more", len(sample)-60))
		}
		s.Note("sample", sample)
	}()
	dir, err := os.MkdirTemp("", "c14-")
	if err != nil {
		s.InfraFail(err.Error())
	}
	defer os.RemoveAll(dir)
	// one generated sequence of transactions, swept over fault kinds and positions
	ntx := 1 + s.Choose(sim.SWork, 4)
	nuniq := 0
	gen := func() c14txn {
		n := s.Choose(sim.SWork, 7)
		t := c14txn{ignoreErrs: s.Choose(sim.SWork, 3) == 0}
		for i := 0; i < n; i++ {
			nuniq++
			st := c14stmt{k: fmt.Sprintf("k%d", s.Choose(sim.SWork, 5)), v: nuniq}
			switch r := s.Choose(sim.SWork, 10); {
			case r < 4:
				st.kind = "insert"
			case r < 6:
				st.kind = "update"
			case r < 7:
				st.kind = "delete"
			case r < 9:
				st.kind = "dup-insert"
			default:
				st.kind = "select"
			}
			t.stmts = append(t.stmts, st)
		}
		return t
	}
	txns := make([]c14txn, ntx)
	for i := range txns {
		txns[i] = gen()
	}
	backendKind := s.Choose(sim.SWork, 6)
	target := s.Choose(sim.SWork, ntx) // the transaction that receives the fault
	kinds := []string{"none", "cb-error", "cb-error-lockwait", "cb-error-deadlock", "cb-error-canceled", "cb-error-deadline", "cb-error-wrapped", "cb-error-txdone", "cb-error-badconn", "cb-panic", "ctx-cancel", "deadline", "exec", "badconn", "begin", "commit-before", "commit-after", "rollback", "nested-deadline"}
	if p.Tier != "thorough" {
		// quick: a seeded subset of the kinds, every position for each
		var sub []string
		for _, k := range kinds {
			if k == "none" || s.Choose(sim.SWork, 3) == 0 {
				sub = append(sub, k)
			}
		}
		kinds = sub
	}
	execs := 0
	for _, kind := range kinds {
		if backendKind == 5 {
			switch kind {
			case "exec", "badconn", "begin", "commit-before", "commit-after", "rollback":
				continue // driver faults need the fault-injecting driver
			}
		}
		npos := len(txns[target].stmts) + 1
		switch kind {
		case "none", "begin", "commit-before", "commit-after", "nested-deadline":
			npos = 1
		case "rollback":
			npos = len(txns[target].stmts) + 1 // needs a callback error to reach Rollback
		}
		for pos := 0; pos < npos; pos++ {
			execs++
			c14execute(s, dir, execs, backendKind, txns, target, c14fault{kind, pos}, &sample)
		}
	}
	c14concurrent(s, dir, backendKind, &sample)
	c14bulk(s, dir, backendKind, &sample)
	c14orm(s, dir, &sample) // (flat, nested and history-mix ORM transactions; own Postgres-struct handle)
	s.Note("executions", execs)
}

// c14poolSetting: the pool size the handle was configured with (what Connect would apply; 25 is
// what a parsed connection string carries). The simulated database keeps one connection whatever
// the setting says: the setting is configuration the handle may read, not behaviour.
func c14poolSetting(s *sim.Sim) int {
	return []int{0, 1, 2, 3, 25}[s.Choose(sim.SWork, 5)]
}

func c14open(s *sim.Sim, dir string, n int, backendKind int) *c14backend {
	dsn := ":memory:"
	if backendKind != 0 {
		dsn = filepath.Join(dir, fmt.Sprintf("db%d.sqlite", n))
	}
	var b *c14backend
	switch backendKind {
	case 5:
		// the public path: NewSQLiteDB + Connect with the real driver (so no driver faults here),
		// over the ways a database location can be spelled — plain and parameterised in-memory
		// names, a file path, a file URI with parameters of its own
		dsns := []string{
			":memory:",
			"",
			fmt.Sprintf("file:c14mem%d?mode=memory&cache=shared", n),
			":memory:?cache=private",
			filepath.Join(dir, fmt.Sprintf("pub%d.sqlite", n)),
			"file:" + filepath.Join(dir, fmt.Sprintf("puburi%d.sqlite", n)) + "?_pragma=foreign_keys(1)",
		}
		dsn := dsns[n%len(dsns)]
		x := NewSQLiteDB(&Config{Database: dsn, MaxOpenConns: c14poolSetting(s)})
		cctx, ccancel := context.WithTimeout(context.Background(), 5*time.Second)
		err := x.Connect(cctx)
		ccancel()
		if err != nil {
			s.InfraFail("C14: Connect(" + dsn + "): " + err.Error())
		}
		s.Probe("sqlite-through-connect")
		b = &c14backend{name: "sqlite-connect", txfn: x.Transaction, db: x.db, bulk: x.BulkInsert, ph: func(int) string { return "?" }}
	case 0, 1:
		// the public path: NewSQLiteDB + Connect (real driver, no driver faults) is used when no
		// driver fault is armed; with driver faults the same struct is built over the wrapper
		db, err := sql.Open("sqlitefault", dsn)
		if err != nil {
			s.InfraFail(err.Error())
		}
		db.SetMaxOpenConns(1)
		db.SetMaxIdleConns(1)
		x := &SQLiteDB{config: &Config{Database: dsn, MaxOpenConns: c14poolSetting(s)}, db: db}
		b = &c14backend{name: "sqlite", txfn: x.Transaction, db: db, bulk: x.BulkInsert, ph: func(int) string { return "?" }}
	case 2:
		db, err := sql.Open("sqlitefault", dsn)
		if err != nil {
			s.InfraFail(err.Error())
		}
		db.SetMaxOpenConns(1)
		x := &MySQLDB{config: &Config{MaxOpenConns: c14poolSetting(s)}, db: db}
		b = &c14backend{name: "mysql-struct", txfn: x.Transaction, db: db, bulk: x.BulkInsert, ph: func(int) string { return "?" }}
	default:
		db, err := sql.Open("sqlitefault", dsn)
		if err != nil {
			s.InfraFail(err.Error())
		}
		db.SetMaxOpenConns(1)
		x := &PostgresDB{config: &Config{MaxOpenConns: c14poolSetting(s)}, db: db}
		b = &c14backend{name: "postgres-struct", txfn: x.Transaction, db: db, bulk: x.BulkInsert, ph: func(i int) string { return fmt.Sprintf("$%d", i) }}
	}
	if _, err := b.db.Exec("CREATE TABLE IF NOT EXISTS t (id INTEGER PRIMARY KEY, k TEXT UNIQUE, v INTEGER)"); err != nil {
		s.InfraFail("C14: create table: " + err.Error())
	}
	return b
}

func c14execute(s *sim.Sim, dir string, n int, backendKind int, txns []c14txn, target int, f c14fault, sample *[]string) {
	b := c14open(s, dir, n, backendKind)
	defer b.db.Close()
	model := c14model{}
	desc := fmt.Sprintf("%s fault=%s@%d target=tx%d", b.name, f.kind, f.pos, target)
	for ti, t := range txns {
		fault := c14fault{kind: "none"}
		if ti == target {
			fault = f
		}
		before := model.clone()
		after := model.clone()
		// a context that is never cancelled unless the fault says so: nothing but Transaction
		// itself may clean up after a failed callback
		ctx, cancel := context.Background(), context.CancelFunc(func() {})
		switch fault.kind {
		case "ctx-cancel":
			ctx, cancel = context.WithCancel(context.Background())
		case "deadline":
			ctx, cancel = context.WithTimeout(context.Background(), time.Second)
		}
		switch fault.kind {
		case "exec", "badconn":
			c14faults.arm(fault.kind, fault.pos+1)
		case "begin", "commit-before", "commit-after":
			c14faults.arm(fault.kind, 1)
		case "rollback":
			c14faults.arm("rollback", 1)
		default:
			c14faults.arm("", 0)
		}
		// the error the callback gives up with: an application error, or one of the values a
		// Transaction implementation might be tempted to treat specially — they come from the
		// callback's own business (a per-statement timeout, a downstream call), while the context
		// Transaction was given is alive and well
		cbErr := errors.New("callback gives up")
		switch fault.kind {
		case "cb-error-canceled":
			cbErr = context.Canceled
		case "cb-error-deadline":
			cbErr = context.DeadlineExceeded
		case "cb-error-wrapped":
			cbErr = fmt.Errorf("lookup of exchange rate: %w", context.DeadlineExceeded)
		case "cb-error-txdone":
			cbErr = sql.ErrTxDone
		case "cb-error-badconn":
			cbErr = driver.ErrBadConn
		case "cb-error-lockwait":
			cbErr = &mysql.MySQLError{Number: 1205, Message: "Lock wait timeout exceeded; try restarting transaction"}
		case "cb-error-deadlock":
			cbErr = fmt.Errorf("saving order: %w", &mysql.MySQLError{Number: 1213, Message: "Deadlock found when trying to get lock; try restarting transaction"})
		}
		isCbErr := strings.HasPrefix(fault.kind, "cb-error")
		var fnReturned error
		fnRan, fnCompleted, panicRaised := false, false, false
		invocations := 0
		run := func() (err error, panicked interface{}) {
			defer func() {
				if r := recover(); r != nil {
					panicked = r
				}
			}()
			err = b.txfn(ctx, func(tx *sql.Tx) error {
				fnRan = true
				_ = fnRan
				// the callback's trouble is transient: were it invoked again (an implementation that
				// retries), it would run through. Each invocation starts from the table as it was.
				invocations++
				fault := fault
				if invocations > 1 {
					fault = c14fault{kind: "none"}
					isCbErr = false
					for k := range after {
						delete(after, k)
					}
					for k, v := range before {
						after[k] = v
					}
					fnReturned, fnCompleted = nil, false
					s.Probe("callback-invoked-again")
				}
				for i, st := range t.stmts {
					if i == fault.pos {
						if isCbErr {
							fnReturned = cbErr
							return cbErr
						}
						switch fault.kind {
						case "rollback":
							fnReturned = cbErr
							return cbErr
						case "cb-panic":
							panicRaised = true
							panic(c14panic{i})
						case "ctx-cancel":
							cancel()
							s.Settle() // let database/sql notice the cancellation
						case "deadline":
							time.Sleep(2 * time.Second) // the deadline passes mid-callback (fake clock)
						case "nested-deadline":
							nctx, ncancel := context.WithTimeout(context.Background(), time.Second)
							nerr := b.txfn(nctx, func(*sql.Tx) error { return nil })
							ncancel()
							if nerr == nil {
								s.Probe("nested-transaction-ran")
							}
						}
					}
					var err error
					switch st.kind {
					case "insert", "dup-insert":
						_, err = tx.Exec(fmt.Sprintf("INSERT INTO t (k, v) VALUES (%s, %s)", b.ph(1), b.ph(2)), st.k, st.v)
					case "update":
						_, err = tx.Exec(fmt.Sprintf("UPDATE t SET v = %s WHERE k = %s", b.ph(1), b.ph(2)), st.v, st.k)
					case "delete":
						_, err = tx.Exec(fmt.Sprintf("DELETE FROM t WHERE k = %s", b.ph(1)), st.k)
					default:
						var cnt int
						err = tx.QueryRow("SELECT COUNT(*) FROM t").Scan(&cnt)
					}
					if err != nil {
						if !t.ignoreErrs {
							fnReturned = err
							return err
						}
					} else {
						after.apply(st)
					}
				}
				if len(t.stmts) == fault.pos {
					if isCbErr {
						fnReturned = cbErr
						return cbErr
					}
					switch fault.kind {
					case "rollback":
						fnReturned = cbErr
						return cbErr
					case "cb-panic":
						panicRaised = true
						panic(c14panic{fault.pos})
					case "ctx-cancel":
						cancel()
						s.Settle()
					case "deadline":
						time.Sleep(2 * time.Second)
					}
				}
				fnCompleted = true
				return nil
			})
			return
		}
		txErr, panicked := run()
		cancel()
		c14faults.arm("", 0)
		if fault.kind != "none" {
			s.Fault(fault.kind)
		}
		// expectation
		var allowed []c14model
		switch {
		case panicked != nil:
			if _, mine := panicked.(c14panic); !mine {
				s.Fail("panic", "Transaction:"+b.name, fmt.Sprintf("%s: unexpected panic %v", desc, panicked))
			}
			allowed = []c14model{before}
		case panicRaised:
			s.Fail("oracle", "panic-swallowed:"+b.name, fmt.Sprintf("%s: the callback panicked but Transaction returned %v instead of re-raising", desc, txErr))
		case txErr == nil:
			if !fnCompleted {
				s.Fail("oracle", "error-swallowed:"+b.name, fmt.Sprintf("%s: the callback returned %v but Transaction returned nil", desc, fnReturned))
			}
			allowed = []c14model{after}
		default:
			allowed = []c14model{before}
			if fault.kind == "commit-after" && fnCompleted {
				allowed = append(allowed, after) // lost acknowledgement: all or none
			}
		}
		got, rerr := c14read(b.db)
		if rerr != nil {
			s.Fail("oracle", "connection-unusable:"+b.name, fmt.Sprintf("%s: reading the table after transaction %d failed: %v (Transaction returned %v)", desc, ti, rerr, txErr))
		}
		okm := false
		for _, a := range allowed {
			if a.String() == got.String() {
				okm = true
			}
		}
		if len(*sample) < 50 {
			*sample = append(*sample, fmt.Sprintf("%s tx%d %v ignoreErrs=%v -> err=%v panicked=%v table=%v", desc, ti, t.stmts, t.ignoreErrs, txErr, panicked != nil, got))
		}
		if !okm {
			site := "partial-or-wrong-effects"
			if got.String() != before.String() && got.String() != after.String() {
				site = "partial-effects-visible"
			} else if got.String() == after.String() {
				site = "effects-survived-rollback"
			} else {
				site = "committed-effects-lost"
			}
			s.Fail("oracle", site+":"+b.name, fmt.Sprintf("%s: transaction %d %v (ignoreErrs=%v) returned err=%v panicked=%v; table is %v, allowed: %v", desc, ti, t.stmts, t.ignoreErrs, txErr, panicked != nil, got, allowed))
		}
		model = got
		// the database may stay unreachable for a few more attempts: each of them fails to begin
		// and, like the first, leaves nothing behind
		if fault.kind == "begin" {
			for k := s.Choose(sim.SWork, 3); k > 0; k-- {
				c14faults.arm("begin", 1)
				bctx, bcancel := context.WithTimeout(context.Background(), 5*time.Second)
				b.txfn(bctx, func(tx *sql.Tx) error { return nil })
				bcancel()
				c14faults.arm("", 0)
				s.Fault("begin")
			}
		}
		// the next fault-free transaction on the same handle completes (connection usable, nothing left open)
		pctx, pcancel := context.WithTimeout(context.Background(), 5*time.Second)
		perr := b.txfn(pctx, func(tx *sql.Tx) error {
			_, err := tx.Exec("UPDATE t SET v = v WHERE 1 = 0")
			return err
		})
		pcancel()
		if perr != nil {
			s.Fail("oracle", "connection-unusable:"+b.name, fmt.Sprintf("%s: a fault-free transaction after transaction %d failed: %v", desc, ti, perr))
		}
	}
}

// c14bulk: a multi-row bulk insert leaves all rows or none.
func c14bulk(s *sim.Sim, dir string, backendKind int, sample *[]string) {
	b := c14open(s, dir, 9000+s.Choose(sim.SWork, 6), backendKind)
	defer b.db.Close()
	nrows := 1 + s.Choose(sim.SWork, 20)
	if s.Choose(sim.SWork, 4) == 0 {
		// large batches: more bound parameters than one statement may carry in some databases, so
		// an implementation may be tempted to split the batch
		nrows = []int{400, 501, 1000, 1300}[s.Choose(sim.SWork, 4)]
		s.Probe("bulk-large-batch")
	}
	dupAt := s.Choose(sim.SWork, nrows+1) // == nrows: no violating row
	if nrows > 100 && s.Choose(sim.SWork, 2) == 0 {
		dupAt = nrows - 1 - s.Choose(sim.SWork, 3) // late in the batch
	}
	giveUp := s.Choose(sim.SWork, 4) == 0 // the caller gives up while the batch is handed over (below)
	if giveUp {
		dupAt = nrows
		if s.Choose(sim.SWork, 2) == 0 {
			nrows = []int{501, 600, 1000}[s.Choose(sim.SWork, 3)]
			dupAt = nrows
		}
	}
	pre := s.Choose(sim.SWork, 2) == 1
	if pre {
		if _, err := b.db.Exec("INSERT INTO t (k, v) VALUES ('dup', 0)"); err != nil {
			s.InfraFail(err.Error())
		}
	}
	var vals [][]interface{}
	for i := 0; i < nrows; i++ {
		k := fmt.Sprintf("b%d", i)
		if i == dupAt {
			k = "dup"
			if !pre && i > 0 {
				k = "b0" // duplicates a row of the same batch
			}
		}
		vals = append(vals, []interface{}{k, i})
	}
	// a row of the wrong width (one value short, or one too many) somewhere in the batch: the
	// statement cannot be built for it, so nothing may be inserted
	badWidth := -1
	if !giveUp && dupAt == nrows && nrows > 1 && s.Choose(sim.SWork, 2) == 0 {
		badWidth = s.Choose(sim.SWork, nrows)
		if s.Choose(sim.SWork, 2) == 0 {
			vals[badWidth] = vals[badWidth][:1]
		} else {
			vals[badWidth] = append(vals[badWidth], "extra")
		}
		s.Probe("bulk-row-of-wrong-width")
	}
	before, _ := c14read(b.db)
	ctx, cancel := context.WithTimeout(context.Background(), 5*time.Second)
	// the caller gives up while the batch is being handed over: one value of the batch is
	// produced by a driver.Valuer that cancels the caller's context when it is asked for it
	cancelAt := -1
	if giveUp {
		cancelAt = s.Choose(sim.SWork, nrows)
		vals[cancelAt][1] = c14canceller{cancel: cancel, v: int64(cancelAt)}
		s.Fault("caller-gives-up-mid-batch")
	}
	err := b.bulk(ctx, "t", []string{"k", "v"}, vals)
	cancel()
	got, rerr := c14read(b.db)
	if rerr != nil {
		s.Fail("oracle", "connection-unusable:"+b.name, "after BulkInsert: "+rerr.Error())
	}
	if cancelAt >= 0 {
		// all rows or none, whatever BulkInsert reports; and the handle goes on working
		if len(got) != len(before) && len(got) != len(before)+nrows {
			s.Fail("oracle", "bulk-partial:"+b.name, fmt.Sprintf("BulkInsert of %d rows whose caller gave up at row %d returned %v and left %d of the rows in the table", nrows, cancelAt, err, len(got)-len(before)))
		}
		pctx, pcancel := context.WithTimeout(context.Background(), 5*time.Second)
		perr := b.txfn(pctx, func(tx *sql.Tx) error {
			_, e := tx.Exec("UPDATE t SET v = v WHERE 1 = 0")
			return e
		})
		pcancel()
		if perr != nil {
			s.Fail("oracle", "connection-unusable:"+b.name, fmt.Sprintf("a transaction after a BulkInsert of %d rows whose caller gave up at row %d failed: %v", nrows, cancelAt, perr))
		}
		after2, _ := c14read(b.db)
		if after2.String() != got.String() {
			s.Fail("oracle", "bulk-partial:"+b.name, fmt.Sprintf("the table changed from %d to %d rows after the abandoned BulkInsert had returned", len(got), len(after2)))
		}
		*sample = append(*sample, fmt.Sprintf("%s BulkInsert %d rows, caller gives up at row %d -> err=%v rows=%d", b.name, nrows, cancelAt, err, len(got)))
		return
	}
	if badWidth >= 0 && err == nil {
		s.Fail("oracle", "bulk-partial:"+b.name, fmt.Sprintf("BulkInsert of %d rows of which row %d has %d values for 2 columns returned nil; the table went from %d to %d rows", nrows, badWidth, len(vals[badWidth]), len(before), len(got)))
	}
	*sample = append(*sample, fmt.Sprintf("%s BulkInsert %d rows dupAt=%d pre=%v -> err=%v rows=%d", b.name, nrows, dupAt, pre, err, len(got)))
	if err != nil {
		s.Probe("bulk-insert-rejected")
		if got.String() != before.String() {
			s.Fail("oracle", "bulk-partial:"+b.name, fmt.Sprintf("BulkInsert of %d rows (violating row at index %d) failed (%v) but the table changed from %s to %s", nrows, dupAt, err, before.short(), got.short()))
		}
	} else if len(got) != len(before)+nrows {
		s.Fail("oracle", "bulk-partial:"+b.name, fmt.Sprintf("BulkInsert of %d rows returned nil but the table went from %d to %d rows", nrows, len(before), len(got)))
	}
}

// c14orm: ORM.Transaction — work done through the ORM inside the callback is part of the transaction.
func c14orm(s *sim.Sim, dir string, sample *[]string) {
	dsn := filepath.Join(dir, "orm.sqlite")
	db, err := sql.Open("sqlitefault", dsn)
	if err != nil {
		s.InfraFail(err.Error())
	}
	defer db.Close()
	// (a pool, as a client-server database has: ORM calls that ignore the transaction take a second connection)
	if _, err := db.Exec("CREATE TABLE IF NOT EXISTS items (id INTEGER PRIMARY KEY, v INTEGER)"); err != nil {
		s.InfraFail(err.Error())
	}
	pg := &PostgresDB{config: &Config{}, db: db}
	orm := NewORM(pg, "items")
	n := 1 + s.Choose(sim.SWork, 3)
	fail := s.Choose(sim.SWork, 2) == 1
	giveUp := errors.New("callback gives up")
	ctx, cancel := context.WithTimeout(context.Background(), 10*time.Second)
	created := 0
	var createErr error
	txErr := orm.Transaction(ctx, func(txCtx context.Context) error {
		for i := 0; i < n; i++ {
			if _, err := orm.Create(txCtx, map[string]interface{}{"id": 100 + i, "v": i}); err != nil {
				createErr = err
				return err
			}
			created++
		}
		if fail {
			return giveUp
		}
		return nil
	})
	cancel()
	var cnt int
	rctx, rcancel := context.WithTimeout(context.Background(), 5*time.Second)
	err = db.QueryRowContext(rctx, "SELECT COUNT(*) FROM items").Scan(&cnt)
	rcancel()
	*sample = append(*sample, fmt.Sprintf("ORM.Transaction creates=%d fail=%v -> err=%v createErr=%v rows=%d", n, fail, txErr, createErr, cnt))
	if err != nil {
		s.Fail("oracle", "connection-unusable:orm", "after ORM.Transaction: "+err.Error())
	}
	if createErr != nil {
		// ORM.Create uses PostgreSQL syntax; if SQLite refuses it this sub-check is not exercised
		s.Probe("orm-create-not-exercised")
		return
	}
	s.Probe("orm-transaction-exercised")
	if txErr != nil && cnt != 0 {
		s.Fail("oracle", "effects-survived-rollback:orm", fmt.Sprintf("ORM.Transaction returned %v (rolled back) but %d of the %d rows created through the ORM inside the callback are in the table", txErr, cnt, created))
	}
	if txErr == nil && cnt != n {
		s.Fail("oracle", "committed-effects-lost:orm", fmt.Sprintf("ORM.Transaction returned nil but %d of %d rows are in the table", cnt, n))
	}
	c14ormNested(s, dir, sample)
	c14ormMix(s, dir, sample)
}

// c14ormMix: an ORM value with a history — creates, updates and deletes outside any transaction
// first — then a transaction whose callback creates, updates and deletes through the same ORM and
// returns normally or fails at the end. The table must equal the model: all of the callback's
// effects, or none.
func c14ormMix(s *sim.Sim, dir string, sample *[]string) {
	dsn := filepath.Join(dir, "ormmix.sqlite")
	db, err := sql.Open("sqlitefault", dsn)
	if err != nil {
		s.InfraFail(err.Error())
	}
	defer db.Close()
	if _, err := db.Exec("CREATE TABLE IF NOT EXISTS items (id INTEGER PRIMARY KEY, v INTEGER)"); err != nil {
		s.InfraFail(err.Error())
	}
	pgdb := &PostgresDB{config: &Config{}, db: db}
	orm := NewORM(pgdb, "items")
	// a second ORM value on the same database (another table handle): inside the callback it is
	// part of the same transaction, whichever ORM value Transaction was called on
	if _, err := db.Exec("CREATE TABLE IF NOT EXISTS notes (id INTEGER PRIMARY KEY, v INTEGER)"); err != nil {
		s.InfraFail(err.Error())
	}
	orm2 := NewORM(pgdb, "notes")
	notes, notesInTx := 0, 0
	model := map[int]int{}
	nextID, nextV := 1, 100
	var opErr error
	var log []string
	apply := func(ctx context.Context, m map[int]int) {
		switch k := s.Choose(sim.SWork, 4); {
		case k < 2 || len(m) == 0:
			id := nextID
			nextID++
			nextV++
			if _, err := orm.Create(ctx, map[string]interface{}{"id": id, "v": nextV}); err != nil {
				opErr = err
				return
			}
			m[id] = nextV
			log = append(log, fmt.Sprintf("create(%d)", id))
		default:
			var ids []int
			for id := range m {
				ids = append(ids, id)
			}
			sort.Ints(ids)
			id := ids[s.Choose(sim.SWork, len(ids))]
			if k == 2 {
				nextV++
				if _, err := orm.Update(ctx, id, map[string]interface{}{"v": nextV}); err != nil {
					opErr = err
					return
				}
				m[id] = nextV
				log = append(log, fmt.Sprintf("update(%d)", id))
			} else {
				if err := orm.Delete(ctx, id); err != nil {
					opErr = err
					return
				}
				delete(m, id)
				log = append(log, fmt.Sprintf("delete(%d)", id))
			}
		}
	}
	ctx, cancel := context.WithTimeout(context.Background(), 30*time.Second)
	defer cancel()
	for i := 2 + s.Choose(sim.SWork, 5); i > 0 && opErr == nil; i-- {
		apply(ctx, model)
	}
	log = append(log, "BEGIN")
	inTx := map[int]int{}
	for k, v := range model {
		inTx[k] = v
	}
	fail := s.Choose(sim.SWork, 2) == 1
	// a driver-level fault on the k-th statement of the transaction: the connection drops
	// (driver.ErrBadConn) or the statement fails; whatever the ORM does about it, the outcome is
	// all of the callback's effects or none
	dropAt := 0
	if s.Choose(sim.SWork, 3) == 0 {
		dropAt = 1 + s.Choose(sim.SWork, 4)
		c14faults.stmtQueries = true
		c14faults.arm([]string{"badconn", "exec"}[s.Choose(sim.SWork, 2)], dropAt)
		s.Fault("orm-statement-fault")
	}
	var faultErr error
	txErr := orm.Transaction(ctx, func(txCtx context.Context) error {
		for i := 1 + s.Choose(sim.SWork, 4); i > 0 && opErr == nil; i-- {
			if s.Choose(sim.SWork, 3) == 0 {
				if _, err := orm2.Create(txCtx, map[string]interface{}{"id": 900 + notesInTx + notes, "v": 1}); err != nil {
					opErr = err
					break
				}
				notesInTx++
				log = append(log, "create-note")
				continue
			}
			apply(txCtx, inTx)
		}
		if opErr != nil && dropAt > 0 {
			// the injected fault surfaced as a statement error: the callback gives up with it
			faultErr, opErr = opErr, nil
			return faultErr
		}
		if opErr != nil {
			return opErr
		}
		if fail {
			return errors.New("callback gives up")
		}
		return nil
	})
	c14faults.arm("", 0)
	c14faults.stmtQueries = false
	*sample = append(*sample, fmt.Sprintf("ORM history %v fail=%v dropAt=%d -> err=%v opErr=%v faultErr=%v", log, fail, dropAt, txErr, opErr, faultErr))
	if opErr != nil {
		// the ORM speaks PostgreSQL; where SQLite refuses a statement this sub-check is not exercised
		s.Probe("orm-mix-not-exercised")
		return
	}
	s.Probe("orm-mix-exercised")
	want := model
	wantNotes := notes
	if txErr == nil {
		if fail || faultErr != nil {
			s.Fail("oracle", "error-swallowed:orm-mix", "the callback returned an error but ORM.Transaction returned nil")
		}
		want = inTx
		wantNotes = notes + notesInTx
	}
	got := map[int]int{}
	rctx, rcancel := context.WithTimeout(context.Background(), 5*time.Second)
	defer rcancel()
	rows, err := db.QueryContext(rctx, "SELECT id, v FROM items")
	if err != nil {
		s.Fail("oracle", "connection-unusable:orm-mix", "after ORM.Transaction: "+err.Error())
	}
	for rows.Next() {
		var id, v int
		rows.Scan(&id, &v)
		got[id] = v
	}
	rows.Close()
	var gotNotes int
	if err := db.QueryRowContext(rctx, "SELECT COUNT(*) FROM notes").Scan(&gotNotes); err != nil {
		s.Fail("oracle", "connection-unusable:orm-mix", "after ORM.Transaction: "+err.Error())
	}
	if gotNotes != wantNotes {
		s.Fail("oracle", "effects-survived-rollback:orm-mix", fmt.Sprintf("history %v; ORM.Transaction returned %v; %d rows were written through a second ORM on the same database inside the callback, the notes table holds %d, it must hold %d", log, txErr, notesInTx, gotNotes, wantNotes))
	}
	if fmt.Sprint(got) != fmt.Sprint(want) {
		site := "effects-survived-rollback:orm-mix"
		if txErr == nil {
			site = "committed-effects-lost:orm-mix"
		}
		s.Fail("oracle", site, fmt.Sprintf("history %v; ORM.Transaction returned %v; the table is %v, it must be %v", log, txErr, got, want))
	}
}

// c14ormNested: a transaction opened inside another one's callback. The inner callback writes and
// then fails; the outer callback handles that error, does its own work and returns normally: the
// inner callback's writes must be gone, the outer ones present. (The outer transaction has not
// written yet when the inner one runs, so both implementations — independent transaction on a
// second connection, or savepoint inside the outer one — can serve it.)
func c14ormNested(s *sim.Sim, dir string, sample *[]string) {
	dsn := filepath.Join(dir, "ormnested.sqlite")
	db, err := sql.Open("sqlitefault", dsn)
	if err != nil {
		s.InfraFail(err.Error())
	}
	defer db.Close()
	if _, err := db.Exec("CREATE TABLE IF NOT EXISTS items (id INTEGER PRIMARY KEY, v INTEGER)"); err != nil {
		s.InfraFail(err.Error())
	}
	pg := &PostgresDB{config: &Config{}, db: db}
	orm := NewORM(pg, "items")
	nin := 1 + s.Choose(sim.SWork, 3)
	nout := 1 + s.Choose(sim.SWork, 2)
	innerFails := s.Choose(sim.SWork, 3) != 0
	innerPanics := innerFails && s.Choose(sim.SWork, 3) == 0
	outerFails := s.Choose(sim.SWork, 3) == 0
	giveUp := errors.New("inner callback gives up")
	ctx, cancel := context.WithTimeout(context.Background(), 10*time.Second)
	defer cancel()
	var innerErr, createErr error
	innerPanicked := false
	txErr := orm.Transaction(ctx, func(outerCtx context.Context) error {
		func() {
			defer func() {
				if r := recover(); r != nil {
					innerPanicked = true
				}
			}()
			innerErr = orm.Transaction(outerCtx, func(innerCtx context.Context) error {
				for i := 0; i < nin; i++ {
					if _, err := orm.Create(innerCtx, map[string]interface{}{"id": 500 + i, "v": i}); err != nil {
						createErr = err
						return err
					}
				}
				if innerPanics {
					panic(c14panic{0})
				}
				if innerFails {
					return giveUp
				}
				return nil
			})
		}()
		for i := 0; i < nout; i++ {
			if _, err := orm.Create(outerCtx, map[string]interface{}{"id": 700 + i, "v": i}); err != nil {
				createErr = err
				return err
			}
		}
		if outerFails {
			return errors.New("outer callback gives up")
		}
		return nil
	})
	rctx, rcancel := context.WithTimeout(context.Background(), 5*time.Second)
	defer rcancel()
	var inner, outer int
	if err := db.QueryRowContext(rctx, "SELECT COUNT(*) FROM items WHERE id < 600").Scan(&inner); err != nil {
		s.Fail("oracle", "connection-unusable:orm-nested", "after nested ORM.Transaction: "+err.Error())
	}
	if err := db.QueryRowContext(rctx, "SELECT COUNT(*) FROM items WHERE id >= 600").Scan(&outer); err != nil {
		s.Fail("oracle", "connection-unusable:orm-nested", "after nested ORM.Transaction: "+err.Error())
	}
	*sample = append(*sample, fmt.Sprintf("nested ORM.Transaction inner=%d rows fails=%v panics=%v, outer=%d rows fails=%v -> innerErr=%v outerErr=%v createErr=%v table inner=%d outer=%d", nin, innerFails, innerPanics, nout, outerFails, innerErr, txErr, createErr, inner, outer))
	if createErr != nil {
		s.Probe("orm-nested-not-exercised")
		return
	}
	s.Probe("orm-nested-exercised")
	if innerFails && !innerPanics && innerErr == nil {
		s.Fail("oracle", "error-swallowed:orm-nested", "the inner callback returned an error but the inner ORM.Transaction returned nil")
	}
	if innerPanics && !innerPanicked {
		s.Fail("oracle", "panic-swallowed:orm-nested", fmt.Sprintf("the inner callback panicked but the inner ORM.Transaction returned %v instead of re-raising", innerErr))
	}
	if innerFails && inner != 0 {
		s.Fail("oracle", "effects-survived-rollback:orm-nested", fmt.Sprintf("the inner callback wrote %d rows and then failed (error handled by the outer callback, outer ORM.Transaction returned %v): %d of its rows are in the table", nin, txErr, inner))
	}
	if !outerFails && txErr == nil && outer != nout {
		s.Fail("oracle", "committed-effects-lost:orm-nested", fmt.Sprintf("the outer ORM.Transaction returned nil but %d of its %d rows are in the table", outer, nout))
	}
	if (outerFails || txErr != nil) && outer != 0 {
		s.Fail("oracle", "effects-survived-rollback:orm-nested", fmt.Sprintf("the outer ORM.Transaction returned %v but %d of its rows are in the table", txErr, outer))
	}
	// a fault-free transaction afterwards completes
	pctx, pcancel := context.WithTimeout(context.Background(), 5*time.Second)
	defer pcancel()
	if perr := orm.Transaction(pctx, func(c context.Context) error { return nil }); perr != nil {
		s.Fail("oracle", "connection-unusable:orm-nested", "a fault-free ORM.Transaction after the nested one failed: "+perr.Error())
	}
}

// c14concurrent: two callers, two transactions on one handle. While A's callback is between two
// of its statements, B calls Transaction from another goroutine (it has to wait for the handle's
// only connection, or gets one of its own); each then commits or fails on its own. Whatever the
// order, the table holds exactly the effects of those that returned nil — neither may become part
// of the other.
func c14concurrent(s *sim.Sim, dir string, backendKind int, sample *[]string) {
	b := c14open(s, dir, 9500, backendKind)
	defer b.db.Close()
	aFails, bFails := s.Choose(sim.SWork, 2) == 1, s.Choose(sim.SWork, 2) == 1
	na, nb := 1+s.Choose(sim.SWork, 3), 1+s.Choose(sim.SWork, 3)
	startAt := s.Choose(sim.SWork, na+1) // B starts before A's startAt-th statement (na: after the last one)
	var bErr error
	bDone := make(chan struct{})
	runB := func() {
		defer close(bDone)
		ctx, cancel := context.WithTimeout(context.Background(), 30*time.Second)
		defer cancel()
		bErr = b.txfn(ctx, func(tx *sql.Tx) error {
			for i := 0; i < nb; i++ {
				if _, err := tx.Exec(fmt.Sprintf("INSERT INTO t (k, v) VALUES (%s, %s)", b.ph(1), b.ph(2)), fmt.Sprintf("b%d", i), i); err != nil {
					return err
				}
			}
			if bFails {
				return errors.New("B gives up")
			}
			return nil
		})
	}
	started := false
	ctx, cancel := context.WithTimeout(context.Background(), 30*time.Second)
	defer cancel()
	aErr := b.txfn(ctx, func(tx *sql.Tx) error {
		for i := 0; i <= na; i++ {
			if i == startAt && !started {
				started = true
				go runB()
				s.Settle() // B runs until it waits for the connection (or, joined to A's transaction, finishes)
			}
			if i == na {
				break
			}
			if _, err := tx.Exec(fmt.Sprintf("INSERT INTO t (k, v) VALUES (%s, %s)", b.ph(1), b.ph(2)), fmt.Sprintf("a%d", i), i); err != nil {
				return err
			}
		}
		if aFails {
			return errors.New("A gives up")
		}
		return nil
	})
	<-bDone
	got, rerr := c14read(b.db)
	if rerr != nil {
		s.Fail("oracle", "connection-unusable:"+b.name, "after two concurrent transactions: "+rerr.Error())
	}
	want := c14model{}
	if aErr == nil {
		if aFails {
			s.Fail("oracle", "error-swallowed:"+b.name, "A's callback returned an error but Transaction returned nil")
		}
		for i := 0; i < na; i++ {
			want[fmt.Sprintf("a%d", i)] = i
		}
	}
	if bErr == nil {
		if bFails {
			s.Fail("oracle", "error-swallowed:"+b.name, "B's callback returned an error but Transaction returned nil")
		}
		for i := 0; i < nb; i++ {
			want[fmt.Sprintf("b%d", i)] = i
		}
	}
	*sample = append(*sample, fmt.Sprintf("%s concurrent: A %d stmts fails=%v -> %v; B (started before A's statement %d) %d stmts fails=%v -> %v; table %v", b.name, na, aFails, aErr, startAt, nb, bFails, bErr, got))
	s.Probe("concurrent-transactions-checked")
	if got.String() != want.String() {
		s.Fail("oracle", "concurrent-transactions-mixed:"+b.name, fmt.Sprintf("A (%d inserts, callback fails=%v) returned %v; B, called from another goroutine before A's statement %d (%d inserts, callback fails=%v), returned %v; the table is %v, it must be %v", na, aFails, aErr, startAt, nb, bFails, bErr, got, want))
	}
}
