package jit

// glyphsim harness for property C15 — "JIT tiering and caching are invisible".
// Injected into pkg/jit at check time; never committed to /repo.

import (
	"encoding/json"
	"fmt"
	"sort"
	"strings"
	"testing"
	"time"

	"github.com/anishathalye/porcupine"
	"github.com/glyphlang/glyph/pkg/ast"
	"github.com/glyphlang/glyph/pkg/compiler"
	"github.com/glyphlang/glyph/pkg/parser"
	sim "github.com/glyphlang/glyph/pkg/zzsimrt"
	"github.com/glyphlang/glyph/pkg/vm"
)

func TestSim(t *testing.T) {
	sim.WorkerMain(t, map[string]sim.HarnessFunc{"C15": c15Run})
}

var c15names = []string{"alpha", "beta", "gamma"}

// pointer-form routes: built from pointer AST nodes as API users (and pkg/jit's own tests) build
// them; the optimizer only rewrites this form, so only here do the optimised tiers differ from
// the baseline. "p-orders" assigns literals to variables that "p-items" reads from its inputs.
var c15ptrNames = []string{"p-orders", "p-items", "p-consts", "p-flow"}

func c15ptrRoute(name string, v int) *ast.Route {
	lit := func(n int) ast.Expr { return &ast.LiteralExpr{Value: ast.IntLiteral{Value: int64(n)}} }
	str := func(x string) ast.Expr { return &ast.LiteralExpr{Value: ast.StringLiteral{Value: x}} }
	vr := func(x string) ast.Expr { return &ast.VariableExpr{Name: x} }
	if c15broken(v) {
		return &ast.Route{Method: ast.Get, Path: "/broken", Body: []ast.Statement{
			&ast.ReturnStatement{Value: &ast.ObjectExpr{Fields: []ast.ObjectField{{Key: "r", Value: str(name)}, {Key: "v", Value: vr("not_declared_yet")}}}},
		}}
	}
	if name == "p-orders" {
		return &ast.Route{Method: ast.Get, Path: "/orders", Body: []ast.Statement{
			&ast.AssignStatement{Target: "lim", Value: lit(10 + v)},
			&ast.AssignStatement{Target: "n", Value: lit(3)},
			&ast.AssignStatement{Target: "w", Value: &ast.BinaryOpExpr{Left: vr("lim"), Op: ast.Mul, Right: lit(2)}},
			&ast.ReturnStatement{Value: &ast.ObjectExpr{Fields: []ast.ObjectField{
				{Key: "r", Value: str("p-orders")}, {Key: "v", Value: lit(v)}, {Key: "y", Value: vr("w")}, {Key: "lim", Value: vr("lim")},
			}}},
		}}
	}
	if name == "p-flow" {
		// variables that are constants in front of a loop and change inside it, under a switch
		// case, a default branch, an if — with reads placed in front of the change in the loop body
		bin := func(l ast.Expr, op ast.BinOp, r ast.Expr) ast.Expr { return &ast.BinaryOpExpr{Left: l, Op: op, Right: r} }
		as := func(t string, e ast.Expr) ast.Statement { return &ast.AssignStatement{Target: t, Value: e} }
		re := func(t string, e ast.Expr) ast.Statement { return &ast.ReassignStatement{Target: t, Value: e} }
		items := []ast.Expr{lit(1), lit(2), lit(1), lit(3), lit(v % 4)}
		var fs []ast.ObjectField
		fs = append(fs, ast.ObjectField{Key: "r", Value: str("p-flow")}, ast.ObjectField{Key: "v", Value: lit(v)})
		for _, k := range []string{"seen", "before", "tally", "evens", "lastEven", "i", "idx", "x1", "y1", "flag", "a1", "s1", "kept"} {
			fs = append(fs, ast.ObjectField{Key: k, Value: vr(k)})
		}
		return &ast.Route{Method: ast.Get, Path: "/flow", Body: []ast.Statement{
			as("seen", lit(0)), as("before", lit(0)), as("tally", lit(v)), as("idx", lit(0)),
			&ast.ForStatement{KeyVar: "k", ValueVar: "x", Iterable: &ast.ArrayExpr{Elements: items}, Body: []ast.Statement{
				re("before", vr("seen")),
				re("idx", bin(vr("idx"), ast.Add, vr("k"))),
				&ast.SwitchStatement{Value: vr("x"), Cases: []ast.SwitchCase{
					{Value: lit(1), Body: []ast.Statement{re("seen", bin(vr("seen"), ast.Add, lit(1)))}},
					{Value: lit(3), Body: []ast.Statement{re("tally", bin(vr("tally"), ast.Add, lit(10)))}},
				}, Default: []ast.Statement{re("tally", bin(vr("tally"), ast.Add, lit(1)))}},
			}},
			as("i", lit(0)), as("evens", lit(0)), as("lastEven", lit(0)),
			&ast.WhileStatement{Condition: bin(vr("i"), ast.Lt, lit(5)), Body: []ast.Statement{
				re("lastEven", vr("evens")),
				&ast.IfStatement{Condition: bin(bin(vr("i"), ast.Mod, lit(2)), ast.Eq, lit(0)), ThenBlock: []ast.Statement{re("evens", bin(vr("evens"), ast.Add, lit(1)))}},
				re("i", bin(vr("i"), ast.Add, lit(1))),
			}},
			// what is known after a branch or a loop is what holds on every way through it
			as("x1", lit(1)),
			&ast.IfStatement{Condition: bin(vr("i"), ast.Gt, lit(3)), ThenBlock: []ast.Statement{re("x1", lit(2))}, ElseBlock: []ast.Statement{re("x1", lit(3))}},
			as("y1", lit(7)),
			&ast.IfStatement{Condition: bin(vr("i"), ast.Gt, lit(9)), ThenBlock: []ast.Statement{re("y1", lit(8))}},
			as("flag", lit(0)), as("j", lit(9)), as("kept", lit(5)),
			&ast.WhileStatement{Condition: bin(vr("j"), ast.Lt, vr("i")), Body: []ast.Statement{re("flag", lit(1)), as("kept", bin(lit(2), ast.Mul, lit(3))), re("j", bin(vr("j"), ast.Add, lit(1)))}},
			// a copy keeps the value it was given when its source moves on
			as("a1", vr("evens")),
			re("evens", bin(vr("evens"), ast.Add, lit(1))),
			as("s1", bin(vr("a1"), ast.Add, vr("evens"))),
			&ast.ReturnStatement{Value: &ast.ObjectExpr{Fields: fs}},
		}}
	}
	if name == "p-consts" {
		// constant expressions of mixed kinds (an integer next to a float, comparisons between
		// them, integer division and remainder, a branch on a constant condition): whatever a
		// tier computes ahead of time must be what the baseline computes at run time
		flt := func(x float64) ast.Expr { return &ast.LiteralExpr{Value: ast.FloatLiteral{Value: x}} }
		bin := func(l ast.Expr, op ast.BinOp, r ast.Expr) ast.Expr { return &ast.BinaryOpExpr{Left: l, Op: op, Right: r} }
		as := func(t string, e ast.Expr) ast.Statement { return &ast.AssignStatement{Target: t, Value: e} }
		ret := func(verdict string) []ast.Statement {
			var fs []ast.ObjectField
			fs = append(fs, ast.ObjectField{Key: "r", Value: str("p-consts")}, ast.ObjectField{Key: "v", Value: lit(v)}, ast.ObjectField{Key: "verdict", Value: str(verdict)})
			for _, k := range []string{"eq", "ne", "lt", "le", "sum", "quot", "rem", "fq", "neg", "negrem", "negquot", "both", "prod"} {
				fs = append(fs, ast.ObjectField{Key: k, Value: vr(k)})
			}
			return []ast.Statement{&ast.ReturnStatement{Value: &ast.ObjectExpr{Fields: fs}}}
		}
		return &ast.Route{Method: ast.Get, Path: "/consts", Body: []ast.Statement{
			as("total", lit(10+v)),
			as("paid", flt(float64(10+v))),
			as("eq", bin(vr("total"), ast.Eq, vr("paid"))),
			as("ne", bin(lit(10+v), ast.Ne, flt(float64(10+v)))),
			as("lt", bin(vr("total"), ast.Lt, flt(float64(10+v)+0.5))),
			as("le", bin(flt(float64(10+v)), ast.Le, lit(10+v))),
			as("sum", bin(vr("total"), ast.Add, flt(0.5))),
			as("quot", bin(vr("total"), ast.Div, lit(4))),
			as("rem", bin(vr("total"), ast.Mod, lit(4))),
			as("fq", bin(vr("paid"), ast.Div, lit(4))),
			as("neg", bin(lit(0), ast.Sub, vr("total"))),
			as("negrem", bin(bin(lit(0), ast.Sub, lit(10+v)), ast.Mod, lit(4))),
			as("negquot", bin(bin(lit(0), ast.Sub, lit(10+v)), ast.Div, lit(4))),
			as("both", bin(bin(lit(1), ast.Lt, lit(2)), ast.And, bin(flt(1.5), ast.Gt, lit(2)))),
			as("prod", bin(flt(1.5), ast.Mul, lit(v))),
			&ast.IfStatement{Condition: bin(vr("total"), ast.Eq, vr("paid")), ThenBlock: ret("same"), ElseBlock: ret("different")},
		}}
	}
	// arithmetic on a value that is only known at run time (q is an integer input), written with
	// the identities an optimiser likes to simplify: 0 - q, q - 0, q * 1, 0 + q, 1 * q, q + 0
	bin := func(l ast.Expr, op ast.BinOp, r ast.Expr) ast.Expr { return &ast.BinaryOpExpr{Left: l, Op: op, Right: r} }
	return &ast.Route{Method: ast.Get, Path: "/items/:lim/:n/:q", Body: []ast.Statement{
		&ast.AssignStatement{Target: "z", Value: lit(v)},
		&ast.AssignStatement{Target: "neg", Value: bin(lit(0), ast.Sub, vr("q"))},
		&ast.AssignStatement{Target: "keep", Value: bin(vr("q"), ast.Sub, lit(0))},
		&ast.AssignStatement{Target: "same", Value: bin(bin(vr("q"), ast.Mul, lit(1)), ast.Add, bin(lit(0), ast.Add, vr("q")))},
		&ast.AssignStatement{Target: "more", Value: bin(bin(lit(1), ast.Mul, vr("q")), ast.Add, bin(vr("q"), ast.Add, lit(0)))},
		&ast.ReturnStatement{Value: &ast.ObjectExpr{Fields: []ast.ObjectField{
			{Key: "r", Value: str("p-items")}, {Key: "v", Value: vr("z")}, {Key: "lim", Value: vr("lim")}, {Key: "n", Value: vr("n")},
			{Key: "neg", Value: vr("neg")}, {Key: "keep", Value: vr("keep")}, {Key: "same", Value: vr("same")}, {Key: "more", Value: vr("more")},
		}}},
	}}
}

// c15routeSrc: version v of route name; the body mixes constants, arithmetic, a branch and a
// loop so that optimisation tiers have something to do, and returns name and version markers.
// c15broken: every fifth version of a definition does not compile (it reads a variable that was
// never declared): the edit a developer saves half-way and corrects with the next save.
func c15broken(v int) bool { return v%5 == 0 }

func c15routeSrc(name string, v int) string {
	if c15broken(v) {
		return fmt.Sprintf("@ GET /%s/:n {\n  $ k = %d\n  > {r: \"%s\", v: %d, y: k + not_declared_yet}\n}\n", name, v, name, v)
	}
	return fmt.Sprintf(`@ GET /%s/:n {
  $ k = %d
  $ y = k * 7 + %d
  $ i = 0
  $ acc = 0
  while i < 3 {
    acc = acc + i * %d
    i = i + 1
  }
  if y > 20 {
    > {r: "%s", v: %d, y: y + acc, big: true}
  } else {
    > {r: "%s", v: %d, y: y - acc, big: false}
  }
}
`, name, 1+v%5, v, v, name, v, name, v)
}

type c15defs struct {
	routes   map[string]*ast.Route // key name/version
	baseline map[string]string     // expected output of a fresh OptNone compilation
	// inPlace: a new version of a route is written into the node that held the previous one (a
	// reloader that keeps its route objects and updates their bodies), instead of a new node.
	// Only used in single-caller runs, where no call can hold the node while it changes.
	inPlace bool
	node    map[string]*ast.Route
}

func (d *c15defs) get(s *sim.Sim, name string, v int) *ast.Route {
	key := fmt.Sprintf("%s/%d", name, v)
	if r, ok := d.routes[key]; ok {
		return r
	}
	if d.inPlace {
		d.inPlace = false
		fresh := d.get(s, name, v) // builds the version and its baseline from separate nodes
		d.inPlace = true
		if d.node == nil {
			d.node = map[string]*ast.Route{}
		}
		if n, ok := d.node[name]; ok {
			*n = *fresh
			d.routes[key] = n
			return n
		}
		d.node[name] = fresh
		return fresh
	}
	if strings.HasPrefix(name, "p-") {
		route := c15ptrRoute(name, v)
		d.routes[key] = route
		// the baseline is compiled from a separately built, identical AST (an optimising compile
		// must not be able to influence it through shared nodes)
		bc, err := compiler.NewCompilerWithOptLevel(compiler.OptNone).CompileRoute(c15ptrRoute(name, v))
		if err != nil {
			if c15broken(v) {
				return route
			}
			s.InfraFail("C15: baseline compile (pointer form): " + err.Error())
		}
		if c15broken(v) {
			s.InfraFail("C15: a definition meant not to compile compiled (pointer form)")
		}
		out, err := c15exec(bc)
		if err != nil {
			s.InfraFail("C15: baseline execution (pointer form): " + err.Error())
		}
		d.baseline[key] = out
		return route
	}
	lx := parser.NewLexer(c15routeSrc(name, v))
	toks, err := lx.Tokenize()
	if err != nil {
		s.InfraFail("C15: lexer: " + err.Error())
	}
	mod, err := parser.NewParser(toks).Parse()
	if err != nil {
		s.InfraFail("C15: parser: " + err.Error())
	}
	var route *ast.Route
	for _, it := range mod.Items {
		if r, ok := it.(*ast.Route); ok {
			route = r
		}
	}
	if route == nil {
		s.InfraFail("C15: no route parsed")
	}
	d.routes[key] = route
	bc, err := compiler.NewCompilerWithOptLevel(compiler.OptNone).CompileRoute(route)
	if err != nil {
		if c15broken(v) {
			return route
		}
		s.InfraFail("C15: baseline compile: " + err.Error())
	}
	if c15broken(v) {
		s.InfraFail("C15: a definition meant not to compile compiled")
	}
	out, err := c15exec(bc)
	if err != nil {
		s.InfraFail("C15: baseline execution: " + err.Error())
	}
	d.baseline[key] = out
	return route
}

func c15exec(bc []byte) (string, error) {
	m := vm.NewVM()
	m.SetLocal("n", vm.StringValue{Val: "5"})
	m.SetLocal("lim", vm.StringValue{Val: "77"})
	m.SetLocal("q", vm.IntValue{Val: 7})
	val, err := m.Execute(bc)
	if err != nil {
		return "", err
	}
	b, err := json.Marshal(val)
	if err != nil {
		return "", err
	}
	return string(b), nil
}

type c15marker struct {
	R string `json:"r"`
	V int    `json:"v"`
}

type c15inval struct {
	ver  int    // version current after the bump
	kind string // redefine | deopt
	call uint64 // stamp at which the invalidating call was invoked
	ret  uint64 // stamp at which the invalidating call returned (0 = still running)
}

// c15pass: a call that handed a definition version to the JIT (and may have cached code for it)
type c15pass struct {
	ver   int
	typed bool
	ret   *uint64 // 0 while in flight
}

// c15h is one completed JIT call on one route name, for the linearizability check: the cache is
// specified as a sequential object keyed by route name (and, for specialised code, by the type
// map): a compile call returns code of the definition it was passed (miss, or a tier upgrade, which
// compiles the passed definition) or the code the cache holds; an invalidation empties the cache.
type c15h struct {
	client    int
	name      string
	kind      string // compile | ctypes | getunit | adaptive | inval | deopt
	tkey      string
	pv, out   int
	flag      bool
	call, ret uint64
}

func (h c15h) String() string {
	switch h.kind {
	case "compile":
		return fmt.Sprintf("CompileRoute(%s, v%d) -> code of v%d", h.name, h.pv, h.out)
	case "ctypes":
		return fmt.Sprintf("CompileRouteWithTypes(%s, v%d, %s) -> code of v%d", h.name, h.pv, h.tkey, h.out)
	case "getunit":
		return fmt.Sprintf("GetUnit(%s) -> v%d", h.name, h.out)
	case "adaptive":
		return fmt.Sprintf("CheckAdaptiveRecompilation(%s, v%d) -> %v", h.name, h.pv, h.flag)
	case "inval":
		return fmt.Sprintf("InvalidateCache/ClearCache(%s)", h.name)
	}
	return fmt.Sprintf("RecordDeoptimization(%s)", h.name)
}

// c15state: the set of versions the unit cache may hold for one name (bit 0 = empty) and, per
// type map, the set the specialisation cache may hold. Sets, because a tier upgrade is a legal but
// not an obligatory outcome of a cache hit.
type c15state struct {
	unit  uint64
	typed map[string]uint64
}

func (st c15state) encode() string {
	var ks []string
	for k, v := range st.typed {
		if v != 1 {
			ks = append(ks, fmt.Sprintf("%s=%d", k, v))
		}
	}
	sort.Strings(ks)
	return fmt.Sprintf("%d|%s", st.unit, strings.Join(ks, ";"))
}

func c15step(st c15state, h c15h) (bool, c15state) {
	nt := map[string]uint64{}
	for k, v := range st.typed {
		nt[k] = v
	}
	ns := c15state{unit: st.unit, typed: nt}
	bit := func(v int) uint64 { return uint64(1) << uint(v) }
	switch h.kind {
	case "compile":
		// the cached code, or code of the passed definition (a miss, or a hit that upgraded the tier:
		// an upgrade compiles the definition it was passed). Whether an upgrade was due is not
		// modelled, so two concurrent misses that store different versions one over the other are
		// accepted (the later store reads as an upgrade) — see DESIGN on what a black-box history
		// can and cannot tell about a compile call that overlaps an invalidation.
		if h.out != h.pv && (h.out == 0 || st.unit&bit(h.out) == 0) {
			return false, st
		}
		ns.unit = bit(h.out)
	case "getunit":
		if st.unit&bit(h.out) == 0 {
			return false, st
		}
		ns.unit = bit(h.out)
	case "adaptive":
		if h.flag {
			if st.unit&^1 == 0 {
				return false, st // nothing cached, nothing to recompile
			}
			ns.unit = bit(h.pv)
		}
	case "ctypes":
		cur, ok := st.typed[h.tkey]
		if !ok {
			cur = 1
		}
		if h.out != h.pv && (h.out == 0 || cur&bit(h.out) == 0) {
			return false, st
		}
		ns.typed[h.tkey] = bit(h.out)
	case "inval":
		ns.unit = 1
		ns.typed = map[string]uint64{}
	case "deopt":
		ns.typed = map[string]uint64{}
	}
	return true, ns
}

func c15typesKey(t map[string]string) string {
	var ks []string
	for k, v := range t {
		ks = append(ks, k+":"+v)
	}
	sort.Strings(ks)
	return "{" + strings.Join(ks, ",") + "}"
}

func c15Run(s *sim.Sim, p *sim.Params) {
	s.SetLimits(400_000, 0)
	threshold := []int{1, 2, 4, 10}[s.Choose(sim.SWork, 4)]
	window := []time.Duration{0, time.Millisecond, 50 * time.Millisecond, 2 * time.Second}[s.Choose(sim.SWork, 4)]
	j := NewJITCompilerWithConfig(threshold, window)
	// tuning knobs are randomised too (in-package access), so that the bounded tables' eviction
	// paths run: a profile table of 2-3 entries, 2 specialisations per route
	if s.Choose(sim.SWork, 3) == 0 {
		j.profiler.maxProfiles = 2 + s.Choose(sim.SWork, 2)
		s.Probe("small-profile-table")
	}
	if s.Choose(sim.SWork, 3) == 0 {
		j.specializationCache.maxPerRoute = 2
		s.Probe("small-specialization-table")
	}
	defs := &c15defs{routes: map[string]*ast.Route{}, baseline: map[string]string{}}
	current := map[string]int{}
	invals := map[string][]*c15inval{}
	passes := map[string][]c15pass{}
	var hist []c15h
	names := c15names
	if s.Choose(sim.SWork, 3) == 0 {
		names = append(append([]string{}, c15ptrNames...), c15names[0])
		s.Probe("pointer-form-routes")
	}
	for _, n := range names {
		current[n] = 1
		defs.get(s, n, 1)
	}
	var sample []string
	defer func() {
		if len(sample) > 80 {
			sample = append(sample[:80], fmt.Sprintf("... %d more", len(sample)-80))
		}
		s.Note("sample", sample)
	}()
	sample = append(sample, fmt.Sprintf("threshold=%d window=%v", threshold, window))
	typePool := []map[string]string{
		{"n": "int"}, {"n": "string"}, {"n": "int", "k": "int"}, {"n": "float"}, {"k": "int"}, {"n": "bool"}, {"y": "int", "n": "int"}, {},
	}
	// judge a bytecode handed out for `name` by a call invoked at `call` with definition version pv
	judge := func(how, name string, pv int, call uint64, bc []byte, typed bool) int {
		out, err := c15exec(bc)
		if err != nil {
			s.Fail("oracle", "undecodable:"+how, fmt.Sprintf("%s(%s) handed out bytecode that does not execute: %v", how, name, err))
		}
		var mk c15marker
		if err := json.Unmarshal([]byte(out), &mk); err != nil || mk.R == "" {
			s.Fail("oracle", "undecodable:"+how, fmt.Sprintf("%s(%s) result %q carries no marker", how, name, out))
		}
		if mk.R != name {
			s.Fail("oracle", "wrong-route:"+how, fmt.Sprintf("%s(%s) handed out code of route %s: %s", how, name, mk.R, out))
		}
		if mk.V < 1 || mk.V > current[name] {
			// (a concurrent caller may have passed a newer definition while this call was in flight,
			// so the bound is the newest version defined by the time the call returned)
			s.Fail("oracle", "wrong-version:"+how, fmt.Sprintf("%s(%s, v%d) handed out code of version %d but the newest definition is version %d", how, name, pv, mk.V, current[name]))
		}
		if want := defs.baseline[fmt.Sprintf("%s/%d", name, mk.V)]; want != out {
			s.Fail("oracle", "differs-from-baseline:"+how, fmt.Sprintf("%s(%s): code of version %d yields %s, fresh baseline compilation yields %s", how, name, mk.V, out, want))
		}
		// stale after invalidation / deoptimisation. The JIT trusts the definition its caller
		// passes, so a caller that handed in an older definition while or after the invalidation
		// ran may legitimately have re-populated the cache with it (some sequential order of the
		// overlapping calls explains the result). Stale code is a violation only when every call
		// that passed that older version had returned before the invalidation was invoked.
		var floor *c15inval
		for _, iv := range invals[name] {
			if iv.ret != 0 && iv.ret < call && (iv.kind == "redefine" || typed) && (floor == nil || iv.ver > floor.ver) {
				floor = iv
			}
		}
		if floor != nil && floor.ver > 1 {
			s.Probe("judged-after-invalidation")
			if mk.V < floor.ver {
				explained := false
				for _, ps := range passes[name] {
					if ps.typed == typed && ps.ver <= mk.V+0 && ps.ver == mk.V && (*ps.ret == 0 || *ps.ret > floor.call) {
						explained = true
					}
				}
				if explained {
					s.Probe("stale-explained-by-overlapping-caller")
				} else {
					s.Fail("oracle", "stale-after-invalidation:"+how, fmt.Sprintf("%s(%s, v%d) invoked at %d handed out version %d although the invalidation that followed the change to version %d had returned at %d and every call that passed version %d had returned before that invalidation was invoked (%d)", how, name, pv, call, mk.V, floor.ver, floor.ret, mk.V, floor.call))
				}
			}
		}
		return mk.V
	}
	pass := func(name string, ver int, typed bool) *uint64 {
		r := new(uint64)
		passes[name] = append(passes[name], c15pass{ver: ver, typed: typed, ret: r})
		return r
	}
	// "hot" runs concentrate every caller on one route with tiny thresholds and windows, so that
	// tier upgrades (recompileRoute) overlap cache hits of other callers
	hot := s.Choose(sim.SWork, 4) == 0
	if hot {
		j.SetHotPathThreshold(1)
		j.SetRecompileWindow(0)
		s.Probe("hot-run")
	}
	// "churn" runs: every caller works on one route that keeps being redefined and invalidated, so
	// that compilations started under one definition overlap the invalidation that follows the next
	churn := !hot && s.Choose(sim.SWork, 4) == 0
	if churn {
		s.Probe("churn-run")
	}
	ntasks := 1 + s.Choose(sim.SWork, 5)
	if p.Tier == "thorough" && s.Choose(sim.SWork, 3) == 0 {
		ntasks = 4 + s.Choose(sim.SWork, 5) // the thorough tier also explores more callers
		s.SetLimits(1_500_000, 0)
	}
	if (hot || churn) && ntasks < 2 {
		ntasks = 2 + s.Choose(sim.SWork, 3)
	}
	if ntasks == 1 && s.Choose(sim.SWork, 2) == 0 {
		// the initial versions were built before this point; from here on a redefinition rewrites
		// the route's node in place
		defs.inPlace = true
		defs.node = map[string]*ast.Route{}
		for _, n := range names {
			defs.node[n] = defs.routes[fmt.Sprintf("%s/%d", n, 1)]
		}
		s.Probe("in-place-redefinition-run")
	}
	var hs []*sim.Handle
	for ti := 0; ti < ntasks; ti++ {
		nops := 3 + s.Choose(sim.SWork, 14)
		type op struct {
			kind  string
			name  string
			n     int
			types map[string]string
			d     time.Duration
		}
		ops := make([]op, nops)
		for i := range ops {
			o := op{name: names[s.Choose(sim.SWork, len(names))]}
			r0 := s.Choose(sim.SWork, 20)
			if hot {
				o.name = names[0]
				r0 = []int{0, 1, 2, 8, 9, 10, 11, 16, 0, 8}[s.Choose(sim.SWork, 10)]
			}
			switch r := r0; {
			case r < 5:
				o.kind = "compile"
			case r < 8:
				o.kind = "compile-types"
				o.types = typePool[s.Choose(sim.SWork, len(typePool))]
			case r < 11:
				o.kind = "record"
				o.n = 1 + s.Choose(sim.SWork, threshold+1)
			case r < 12:
				o.kind = "adaptive"
			case r < 13:
				o.kind = "deopt"
			case r < 14:
				o.kind = "deoptimise" // change + RecordDeoptimization
			case r < 16:
				o.kind = "redefine"
				o.n = s.Choose(sim.SWork, 2) // 0 InvalidateCache, 1 ClearCache
			case r < 17:
				o.kind = "getunit"
			case r < 18:
				if s.Choose(sim.SWork, 2) == 0 {
					o.kind = "noise"
				} else {
					o.kind = "typeusage"
				}
			case r < 0:
				o.kind = "typeusage"
			default:
				o.kind = "sleep"
				o.d = []time.Duration{time.Millisecond, 60 * time.Millisecond, 3 * time.Second}[s.Choose(sim.SWork, 3)]
			}
			ops[i] = o
		}
		ti := ti
		hs = append(hs, s.Spawn(fmt.Sprintf("caller#%d", ti), func() {
			for _, o := range ops {
				s.Op(o.kind + " " + o.name)
				switch o.kind {
				case "compile":
					pv := current[o.name]
					route := defs.get(s, o.name, pv)
					call := s.Stamp()
					pr := pass(o.name, pv, false)
					bc, err := j.CompileRoute(o.name, route)
					*pr = s.Stamp()
					if err != nil {
						if c15broken(pv) {
							// the caller passed a definition that does not compile: refusing it is right
							s.Probe("broken-definition-refused")
							sample = append(sample, fmt.Sprintf("t%d [%d] CompileRoute(%s, v%d) -> error (definition does not compile)", ti, call, o.name, pv))
							continue
						}
						s.Fail("oracle", "compile-error", fmt.Sprintf("CompileRoute(%s, v%d): %v — the definition compiles", o.name, pv, err))
					}
					sample = append(sample, fmt.Sprintf("t%d [%d] CompileRoute(%s, v%d) -> %d bytes", ti, call, o.name, pv, len(bc)))
					out := judge("CompileRoute", o.name, pv, call, bc, false)
					hist = append(hist, c15h{client: ti, name: o.name, kind: "compile", pv: pv, out: out, call: call, ret: *pr})
				case "compile-types":
					pv := current[o.name]
					route := defs.get(s, o.name, pv)
					call := s.Stamp()
					pr := pass(o.name, pv, true)
					bc, err := j.CompileRouteWithTypes(o.name, route, o.types)
					*pr = s.Stamp()
					if err != nil {
						if c15broken(pv) {
							s.Probe("broken-definition-refused")
							continue
						}
						s.Fail("oracle", "compile-error", fmt.Sprintf("CompileRouteWithTypes(%s, v%d): %v — the definition compiles", o.name, pv, err))
					}
					sample = append(sample, fmt.Sprintf("t%d [%d] CompileRouteWithTypes(%s, v%d, %v) -> %d bytes", ti, call, o.name, pv, o.types, len(bc)))
					out := judge("CompileRouteWithTypes", o.name, pv, call, bc, true)
					hist = append(hist, c15h{client: ti, name: o.name, kind: "ctypes", tkey: c15typesKey(o.types), pv: pv, out: out, call: call, ret: *pr})
				case "record":
					for k := 0; k < o.n; k++ {
						j.RecordExecution(o.name, time.Duration(1+k)*time.Microsecond)
					}
				case "adaptive":
					pv := current[o.name]
					route := defs.get(s, o.name, pv)
					pr := pass(o.name, pv, false)
					call := s.Stamp()
					did, err := j.CheckAdaptiveRecompilation(o.name, route)
					if err != nil {
						if c15broken(pv) {
							*pr = s.Stamp()
							continue
						}
						s.Fail("oracle", "compile-error", "CheckAdaptiveRecompilation: "+err.Error())
					}
					*pr = s.Stamp()
					hist = append(hist, c15h{client: ti, name: o.name, kind: "adaptive", pv: pv, flag: did, call: call, ret: *pr})
				case "deopt":
					call := s.Stamp()
					j.RecordDeoptimization(o.name, "guard failed", map[string]string{"n": "string"})
					hist = append(hist, c15h{client: ti, name: o.name, kind: "deopt", call: call, ret: s.Stamp()})
				case "deoptimise":
					current[o.name]++
					iv := &c15inval{ver: current[o.name], kind: "deopt", call: s.Stamp()}
					defs.get(s, o.name, iv.ver)
					invals[o.name] = append(invals[o.name], iv)
					sample = append(sample, fmt.Sprintf("t%d [%d] %s changes to v%d, RecordDeoptimization", ti, s.Stamp(), o.name, iv.ver))
					j.RecordDeoptimization(o.name, "assumption no longer holds", map[string]string{"n": "int"})
					iv.ret = s.Stamp()
					hist = append(hist, c15h{client: ti, name: o.name, kind: "deopt", call: iv.call, ret: iv.ret})
				case "redefine":
					current[o.name]++
					iv := &c15inval{ver: current[o.name], kind: "redefine", call: s.Stamp()}
					defs.get(s, o.name, iv.ver)
					var others []*c15inval
					if o.n == 1 {
						// ClearCache invalidates every route: each gets an entry at its current version
						for _, n := range names {
							if n != o.name {
								others = append(others, &c15inval{ver: current[n], kind: "redefine", call: iv.call})
								invals[n] = append(invals[n], others[len(others)-1])
							}
						}
					}
					invals[o.name] = append(invals[o.name], iv)
					how := "InvalidateCache"
					if o.n == 1 {
						how = "ClearCache"
					}
					sample = append(sample, fmt.Sprintf("t%d [%d] %s redefined to v%d, %s", ti, s.Stamp(), o.name, iv.ver, how))
					if o.n == 1 {
						j.ClearCache()
					} else {
						j.InvalidateCache(o.name)
					}
					iv.ret = s.Stamp()
					for _, x := range others {
						x.ret = iv.ret
					}
					hist = append(hist, c15h{client: ti, name: o.name, kind: "inval", call: iv.call, ret: iv.ret})
					if o.n == 1 {
						for _, n := range names {
							if n != o.name {
								hist = append(hist, c15h{client: ti, name: n, kind: "inval", call: iv.call, ret: iv.ret})
							}
						}
					}
				case "getunit":
					pv := current[o.name]
					call := s.Stamp()
					if u, ok := j.GetUnit(o.name); ok {
						if u.Name != o.name {
							s.Fail("oracle", "wrong-route:GetUnit", fmt.Sprintf("GetUnit(%s) returned unit %s", o.name, u.Name))
						}
						out := judge("GetUnit", o.name, pv, call, u.Bytecode, false)
						hist = append(hist, c15h{client: ti, name: o.name, kind: "getunit", out: out, call: call, ret: s.Stamp()})
					} else {
						hist = append(hist, c15h{client: ti, name: o.name, kind: "getunit", out: 0, call: call, ret: s.Stamp()})
					}
				case "noise":
					for k := 0; k < 4; k++ {
						j.RecordExecution(fmt.Sprintf("noise-%d", k), time.Microsecond)
					}
				case "typeusage":
					for k := 0; k < 12; k++ {
						j.GetProfiler().RecordTypeUsage(o.name, "n", "int")
					}
				case "sleep":
					s.Sleep(o.d)
					s.Fault("clock-advance")
				}
			}
		}))
	}
	if !s.WaitTimeout(time.Hour, hs...) {
		s.Fail("deadlock", s.BlockedSitesOf(hs...), "JIT calls did not return: "+s.BlockedSummary())
	}
	// linearizability of the whole history, per route name, against the sequential cache
	// specification (return values included: a stale unit written back over a newer one shows up as
	// a later caller being served a version no sequential order of the calls can explain)
	for _, name := range names {
		var ops []porcupine.Operation
		var lines []string
		for _, h := range hist {
			if h.name != name {
				continue
			}
			if h.out > 62 || h.pv > 62 {
				ops = nil
				break
			}
			ops = append(ops, porcupine.Operation{ClientId: h.client, Input: h, Output: 0, Call: int64(h.call), Return: int64(h.ret)})
			lines = append(lines, fmt.Sprintf("t%d [%d,%d] %v", h.client, h.call, h.ret, h))
		}
		if len(ops) < 2 || len(ops) > 40 {
			continue
		}
		states := map[string]c15state{}
		key := func(st c15state) string { k := st.encode(); states[k] = st; return k }
		model := porcupine.Model{
			Init: func() interface{} { return key(c15state{unit: 1, typed: map[string]uint64{}}) },
			Step: func(state, in, out interface{}) (bool, interface{}) {
				ok, ns := c15step(states[state.(string)], in.(c15h))
				if !ok {
					return false, state
				}
				return true, key(ns)
			},
		}
		s.Probe("history-checked-for-linearizability")
		name := name
		s.AfterRun(func() *sim.Violation {
			switch porcupine.CheckOperationsTimeout(model, ops, 15*time.Second) {
			case porcupine.Illegal:
				return &sim.Violation{Class: "oracle", Site: "not-linearizable:jit-cache", Msg: "the calls on route " + name + " (with the versions of the code they were handed) have no sequential explanation: a compile call returns code of the definition it was passed or the cached code, an invalidation empties the cache\n  " + strings.Join(lines, "\n  ")}
			case porcupine.Unknown:
				s.Probe("porcupine-inconclusive")
			}
			return nil
		})
	}
	st := j.GetStats()
	if st.Recompilations > 0 {
		s.Probe("recompiled-to-higher-tier")
	}
	if st.SpecializationHits > 0 {
		s.Probe("specialization-hit")
	}
	_ = strings.TrimSpace
}
