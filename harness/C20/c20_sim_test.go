package cache

// glyphsim harness for property C20 — "the cache behaves as a bounded LRU map".
// Injected into pkg/cache at check time (go test -overlay); never committed to /repo.

import (
	"fmt"
	"sort"
	"strings"
	"testing"
	"time"
	"unsafe"

	"github.com/anishathalye/porcupine"
	sim "github.com/glyphlang/glyph/pkg/zzsimrt"
)

func TestSim(t *testing.T) {
	sim.WorkerMain(t, map[string]sim.HarnessFunc{"C20": c20Run})
}

// ---------------------------------------------------------------------------------------------
// reference model: an LRU list with tri-state presence.
//
// An entry is certain (present) or "maybe" (present or not — used only after situations whose
// outcome the property leaves open: a value that cannot fit, a zero capacity, expired entries
// that may or may not have been swept). Everything else is exact.

type c20ent struct {
	key   string
	val   string
	size  int64
	tags  []string
	exp   int64 // expiry instant in ns of simulated time, 0 = never
	maybe bool
}

type c20state struct {
	ents []c20ent // most recently used first
}

type c20cfg struct {
	capacity int
	maxSize  int64 // 0 = unlimited
	ttl      time.Duration
}

type c20op struct {
	kind   string // get set settags delete deltag clear stats prefix
	key    string
	val    string
	bytes  bool
	ttl    time.Duration
	tags   []string
	now    int64
}

type c20res struct {
	val   string
	ok    bool
	err   bool
	n     int
	count int64
	size  int64
}

func (o c20op) String() string {
	switch o.kind {
	case "get", "delete":
		return fmt.Sprintf("%s(%s)", o.kind, o.key)
	case "set":
		return fmt.Sprintf("set(%s,%q,ttl=%v)", o.key, o.val, o.ttl)
	case "settags":
		return fmt.Sprintf("settags(%s,%q,ttl=%v,%v)", o.key, o.val, o.ttl, o.tags)
	case "deltag", "prefix":
		return fmt.Sprintf("%s(%s)", o.kind, o.key)
	}
	return o.kind + "()"
}

func (r c20res) String() string {
	return fmt.Sprintf("{val=%q ok=%v err=%v n=%d count=%d size=%d}", r.val, r.ok, r.err, r.n, r.count, r.size)
}

func (st c20state) clone() c20state {
	return c20state{ents: append([]c20ent(nil), st.ents...)}
}

func (st c20state) find(k string) int {
	for i, e := range st.ents {
		if e.key == k {
			return i
		}
	}
	return -1
}

func (e c20ent) expired(now int64) bool    { return e.exp != 0 && now > e.exp }
func (e c20ent) expiringNow(now int64) bool { return e.exp != 0 && now == e.exp }

func (st c20state) encode() string {
	var b strings.Builder
	for _, e := range st.ents {
		fmt.Fprintf(&b, "%s=%s/%d/%v/%d/%v;", e.key, e.val, e.size, e.tags, e.exp, e.maybe)
	}
	return b.String()
}

// step applies op with observed result res; returns false if no behaviour allowed by the property
// produces that result.
func c20step(cfg c20cfg, st c20state, op c20op, res c20res) (bool, c20state, string) {
	st = st.clone()
	now := op.now
	uncertain := func(e c20ent) bool { return e.maybe || e.expired(now) || e.expiringNow(now) }
	remove := func(i int) { st.ents = append(st.ents[:i], st.ents[i+1:]...) }
	switch op.kind {
	case "get":
		i := st.find(op.key)
		if i < 0 {
			if res.ok {
				return false, st, fmt.Sprintf("get(%s) hit %q but the key is not stored", op.key, res.val)
			}
			return true, st, ""
		}
		e := st.ents[i]
		if e.expired(now) {
			if res.ok {
				return false, st, fmt.Sprintf("get(%s) returned %q which expired %v ago", op.key, res.val, time.Duration(now-e.exp))
			}
			remove(i)
			return true, st, ""
		}
		if !res.ok {
			if !uncertain(e) {
				return false, st, fmt.Sprintf("get(%s) missed but %q is stored, unexpired and was not the least recently used under pressure", op.key, e.val)
			}
			remove(i)
			return true, st, ""
		}
		if res.val != e.val {
			return false, st, fmt.Sprintf("get(%s) returned %q, most recently stored value is %q", op.key, res.val, e.val)
		}
		e.maybe = false
		remove(i)
		st.ents = append([]c20ent{e}, st.ents...)
		return true, st, ""
	case "set", "settags":
		size := int64(len(op.val))
		ttl := op.ttl
		if ttl == 0 {
			ttl = cfg.ttl
		}
		var exp int64
		if ttl > 0 {
			exp = now + int64(ttl)
		}
		i := st.find(op.key)
		cannotFit := cfg.capacity <= 0 || (cfg.maxSize > 0 && size > cfg.maxSize)
		if cannotFit {
			// outcome left open by the property: the value is not stored; whether other entries were
			// evicted while trying is not specified. What is required: the call returns, limits hold,
			// and a stale value is not served after a Set that reported success.
			for j := range st.ents {
				st.ents[j].maybe = true
			}
			if i >= 0 && !res.err {
				remove(i)
			}
			return true, st, ""
		}
		if res.err {
			// a Set that fits must not be refused... but if it is, nothing may have changed except
			// that the property says operations succeed; treat as violation
			return false, st, fmt.Sprintf("%v returned an error although the value fits the limits", op)
		}
		if i >= 0 {
			remove(i)
		}
		ne := c20ent{key: op.key, val: op.val, size: size, tags: op.tags, exp: exp}
		st.ents = append([]c20ent{ne}, st.ents...)
		// eviction: least recently used first, until both limits hold
		over := func() bool {
			var tot int64
			for _, e := range st.ents {
				tot += e.size
			}
			return len(st.ents) > cfg.capacity || (cfg.maxSize > 0 && tot > cfg.maxSize)
		}
		if over() {
			fuzzy := false
			for _, e := range st.ents[1:] {
				if uncertain(e) {
					fuzzy = true
				}
			}
			if fuzzy {
				for j := 1; j < len(st.ents); j++ {
					st.ents[j].maybe = true
				}
			} else {
				for over() && len(st.ents) > 1 {
					st.ents = st.ents[:len(st.ents)-1]
				}
			}
		}
		return true, st, ""
	case "delete":
		if i := st.find(op.key); i >= 0 {
			remove(i)
		}
		return true, st, ""
	case "clear":
		st.ents = nil
		return true, st, ""
	case "deltag", "prefix":
		lo, hi := 0, 0
		var keep []c20ent
		for _, e := range st.ents {
			match := false
			if op.kind == "deltag" {
				for _, t := range e.tags {
					if t == op.key {
						match = true
					}
				}
			} else {
				match = strings.HasPrefix(e.key, op.key)
			}
			if !match {
				keep = append(keep, e)
				continue
			}
			hi++
			if !uncertain(e) {
				lo++
			}
		}
		st.ents = keep
		if res.n < lo || res.n > hi {
			return false, st, fmt.Sprintf("%v removed %d entries, expected between %d and %d", op, res.n, lo, hi)
		}
		return true, st, ""
	case "stats":
		var lo, hi, slo, shi int64
		for _, e := range st.ents {
			hi++
			shi += e.size
			if !uncertain(e) {
				lo++
				slo += e.size
			}
		}
		if res.count < lo || res.count > hi {
			return false, st, fmt.Sprintf("stats: EntryCount=%d, expected between %d and %d", res.count, lo, hi)
		}
		if res.size < slo || res.size > shi {
			return false, st, fmt.Sprintf("stats: Size=%d, expected between %d and %d", res.size, slo, shi)
		}
		if res.count > int64(cfg.capacity) && !(cfg.capacity <= 0 && res.count == 0) {
			return false, st, fmt.Sprintf("stats: EntryCount=%d exceeds capacity %d", res.count, cfg.capacity)
		}
		if cfg.maxSize > 0 && res.size > cfg.maxSize {
			return false, st, fmt.Sprintf("stats: Size=%d exceeds MaxSize %d", res.size, cfg.maxSize)
		}
		return true, st, ""
	}
	return false, st, "unknown op " + op.kind
}

// ---------------------------------------------------------------------------------------------
// system under test driver

func c20apply(c *LRUCache, hc *HTTPCache, op c20op) c20res {
	var r c20res
	var v interface{} = op.val
	if op.bytes {
		v = []byte(op.val)
	}
	switch op.kind {
	case "get":
		got, ok := c.Get(op.key)
		r.ok = ok
		if ok {
			switch x := got.(type) {
			case string:
				r.val = x
			case []byte:
				r.val = string(x)
			default:
				r.val = fmt.Sprintf("<%T %v>", got, got)
			}
		}
	case "set":
		r.err = c.Set(op.key, v, op.ttl) != nil
	case "settags":
		r.err = c.SetWithTags(op.key, v, op.ttl, op.tags) != nil
	case "delete":
		r.err = c.Delete(op.key) != nil
	case "clear":
		r.err = c.Clear() != nil
	case "deltag":
		r.n = c.DeleteByTag(op.key)
	case "prefix":
		r.n = hc.InvalidateByPrefix(op.key)
	case "stats":
		s := c.Stats()
		r.count, r.size = s.EntryCount, s.Size
	}
	return r
}

// c20structural checks the in-package bookkeeping while no operation is in progress.
func c20structural(c *LRUCache, cfg c20cfg) string {
	if len(c.items) != c.evictList.Len() {
		return fmt.Sprintf("index has %d keys but the recency list has %d elements", len(c.items), c.evictList.Len())
	}
	var tot int64
	for e := c.evictList.Front(); e != nil; e = e.Next() {
		en := e.Value.(*Entry)
		tot += en.Size
		if c.items[en.Key] != e {
			return fmt.Sprintf("list element for key %q is not the one indexed under that key", en.Key)
		}
	}
	if tot != c.currentSize {
		return fmt.Sprintf("currentSize=%d but entries sum to %d", c.currentSize, tot)
	}
	if c.evictList.Len() > cfg.capacity && !(cfg.capacity <= 0 && c.evictList.Len() == 0) {
		return fmt.Sprintf("%d entries exceed capacity %d", c.evictList.Len(), cfg.capacity)
	}
	if cfg.maxSize > 0 && c.currentSize > cfg.maxSize {
		return fmt.Sprintf("size %d exceeds MaxSize %d", c.currentSize, cfg.maxSize)
	}
	return ""
}

var c20keys = []string{"a", "b", "ab", "abc", "c"}
// (a tag may be named twice: tag lists are often concatenations of several sources)
var c20tags = [][]string{nil, {"t1"}, {"t2"}, {"t1", "t2"}, {"t1", "t1"}, {"t2", "t1", "t2"}}

const c20alpha = "ABCDEFGHIJKLMNOPQRSTUVWXYZabcdefghijklmnopqrstuvwxyz0123456789"

func c20value(n int, length int) string {
	code := string([]byte{c20alpha[n%len(c20alpha)], c20alpha[(n/len(c20alpha))%len(c20alpha)]})
	if length <= len(code) {
		return code[:length]
	}
	return code + strings.Repeat("x", length-len(code))
}

type c20gen struct {
	s        *sim.Sim
	cfg      c20cfg
	n        int
	edgeVals bool
	ttls     []time.Duration
	last     map[string]string // value of the latest Set generated per key
}

func (g *c20gen) op() c20op {
	s := g.s
	var op c20op
	switch r := s.Choose(sim.SWork, 20); {
	case r < 6:
		op.kind = "get"
	case r < 12:
		op.kind = "set"
	case r < 14:
		op.kind = "settags"
	case r < 15:
		op.kind = "delete"
	case r < 16:
		op.kind = "deltag"
	case r < 17:
		op.kind = "prefix"
	case r < 18:
		op.kind = "clear"
	default:
		op.kind = "stats"
	}
	op.key = c20keys[s.Choose(sim.SWork, len(c20keys))]
	switch op.kind {
	case "set", "settags":
		g.n++
		maxLen := 6
		if g.cfg.maxSize > 0 {
			maxLen = int(g.cfg.maxSize)
			if g.edgeVals {
				maxLen = 2*int(g.cfg.maxSize) + 1
			}
		}
		op.val = c20value(g.n, s.Choose(sim.SWork, maxLen+1))
		if g.last != nil && s.Choose(sim.SWork, 6) == 0 {
			// store again exactly what an earlier Set stored (same key, same value): a refresh
			if v, ok := g.last[op.key]; ok {
				op.val = v
			}
		}
		if g.last == nil {
			g.last = map[string]string{}
		}
		g.last[op.key] = op.val
		op.bytes = s.Choose(sim.SWork, 5) == 0
		op.ttl = g.ttls[s.Choose(sim.SWork, len(g.ttls))]
		if op.kind == "settags" {
			op.tags = c20tags[s.Choose(sim.SWork, len(c20tags))]
		}
	case "deltag":
		op.key = []string{"t1", "t2", "t3"}[s.Choose(sim.SWork, 3)]
	case "prefix":
		op.key = []string{"a", "ab", "b", "", "zz"}[s.Choose(sim.SWork, 5)]
	}
	return op
}

type c20evictPanic struct{}

func c20Run(s *sim.Sim, p *sim.Params) {
	s.SetLimits(200_000, 50_000)
	// configuration (swarm: every run draws its own limits, TTL regime and mode)
	cfg := c20cfg{}
	cfg.capacity = []int{1, 2, 3, 5, 2, 3, 0}[s.Choose(sim.SWork, 7)]
	cfg.maxSize = []int64{0, 0, 4, 8, 16, 64, 1}[s.Choose(sim.SWork, 7)]
	regime := s.Choose(sim.SWork, 4) // 0,1: no expiry; 2: short TTLs; 3: mixed
	ttls := []time.Duration{0}
	switch regime {
	case 2:
		cfg.ttl = []time.Duration{50 * time.Millisecond, time.Second, 90 * time.Second}[s.Choose(sim.SWork, 3)]
		ttls = []time.Duration{0, 0, 30 * time.Millisecond, 2 * time.Second}
	case 3:
		ttls = []time.Duration{0, 0, 0, 70 * time.Second, -1}
	}
	edge := s.Choose(sim.SWork, 5) == 0
	if !edge && cfg.capacity == 0 {
		cfg.capacity = 2
	}
	concurrent := s.Choose(sim.SWork, 3) == 0
	if p.Knob("mode", -1) == 0 {
		concurrent = false
	} else if p.Knob("mode", -1) == 1 {
		concurrent = true
	}

	// eviction callback: none, one that records what it is told (and takes its time: it is a
	// scheduling point), or — sequential histories only — one that panics for one key, the caller
	// recovering as a web server does for a handler
	evictMode := []int{0, 0, 0, 0, 1, 1, 1, 2}[s.Choose(sim.SWork, 8)]
	if concurrent && evictMode == 2 {
		evictMode = 1
	}
	var evicted [][2]string
	opts := []LRUOption{WithCapacity(cfg.capacity), WithMaxSize(cfg.maxSize), WithDefaultTTL(cfg.ttl)}
	if evictMode > 0 {
		s.Probe("config:eviction-callback")
		opts = append(opts, WithOnEvict(func(key string, value interface{}) {
			v := fmt.Sprint(value)
			if b, ok := value.([]byte); ok {
				v = string(b)
			}
			evicted = append(evicted, [2]string{key, v})
			sim.Yield("c20.onEvict")
			if evictMode == 2 && key == "ab" && s.TaskName() == "main" {
				// (only on the caller's own goroutine: a panic on the cache's cleanup goroutine
				// would be the callback's author's problem, nobody could recover it)
				s.Fault("eviction-callback-panics")
				panic(c20evictPanic{})
			}
		}))
	}
	hc := NewHTTPCache(DefaultHTTPCacheConfig(), opts...)
	c := hc.cache
	defer c.Close()
	g := &c20gen{s: s, cfg: cfg, edgeVals: edge, ttls: ttls}
	var sample []string
	sample = append(sample, fmt.Sprintf("config capacity=%d maxSize=%d defaultTTL=%v regime=%d edge=%v concurrent=%v", cfg.capacity, cfg.maxSize, cfg.ttl, regime, edge, concurrent))
	defer func() { s.Note("sample", sample) }()
	if cfg.capacity == 0 {
		s.Probe("config:capacity-0")
	}
	if edge {
		s.Probe("config:oversize-values")
	}

	if !concurrent {
		st := c20state{}
		afterPanic := false
		nops := 5 + s.Choose(sim.SWork, 56)
		closeAt := -1
		if s.Choose(sim.SWork, 6) == 0 {
			closeAt = s.Choose(sim.SWork, nops) // Close stops the janitor; the cache stays usable, expiry included
		}
		for i := 0; i < nops; i++ {
			if i == closeAt {
				c.Close()
				s.Probe("closed-mid-history")
				sample = append(sample, "Close()")
			}
			if regime >= 2 && s.Choose(sim.SWork, 3) == 0 {
				d := []time.Duration{time.Millisecond, 40 * time.Millisecond, 60 * time.Millisecond, time.Second, 61 * time.Second, 5 * time.Minute}[s.Choose(sim.SWork, 6)]
				s.Sleep(d)
				s.Fault("clock-advance")
				sample = append(sample, fmt.Sprintf("advance %v", d))
			}
			op := g.op()
			op.now = int64(s.Now())
			s.Op(op.String())
			var res c20res
			panicked := false
			func() {
				defer func() {
					if r := recover(); r != nil {
						if _, mine := r.(c20evictPanic); !mine {
							panic(r)
						}
						panicked = true
					}
				}()
				res = c20apply(c, hc, op)
			}()
			s.Op("")
			if panicked || afterPanic {
				// the callback's panic aborted an operation half-way: what the cache holds now is
				// not specified. What remains specified is that every later operation returns.
				afterPanic = true
				sample = append(sample, fmt.Sprintf("%v -> (after the eviction callback panicked: only liveness is judged)", op))
				continue
			}
			sample = append(sample, fmt.Sprintf("%v -> %v", op, res))
			c20probe(s, cfg, st, op)
			ok, nst, why := c20step(cfg, st, op, res)
			if !ok {
				s.Fail("oracle", "lru-model:"+op.kind, fmt.Sprintf("after %d operations: %s\nhistory:\n  %s", i+1, why, strings.Join(sample, "\n  ")))
			}
			st = nst
			s.Quiesce(0) // (the janitor may be in the middle of a sweep: let it finish and release the lock)
			if why := c20structural(c, cfg); why != "" {
				s.Fail("invariant", "cache-structure", fmt.Sprintf("after %v: %s\nhistory:\n  %s", op, why, strings.Join(sample, "\n  ")))
			}
		}
		return
	}

	// Mode C: concurrent callers; the history must be linearizable w.r.t. the same model and no
	// race probe may fire. Time does not advance during the concurrent phase.
	ntasks := 2 + s.Choose(sim.SWork, 3)
	type rec struct {
		client    int
		op        c20op
		res       c20res
		call, ret uint64
	}
	var hist []rec
	now := int64(s.Now())
	var hs []*sim.Handle
	// a sequential prefix fills the cache so that the concurrent phase starts under pressure
	st := c20state{}
	pre := s.Choose(sim.SWork, 5)
	for i := 0; i < pre; i++ {
		op := g.op()
		op.now = now
		res := c20apply(c, hc, op)
		sample = append(sample, fmt.Sprintf("pre %v -> %v", op, res))
		ok, nst, why := c20step(cfg, st, op, res)
		if !ok {
			s.Fail("oracle", "lru-model:"+op.kind, why+"\nhistory:\n  "+strings.Join(sample, "\n  "))
		}
		st = nst
	}
	for ti := 0; ti < ntasks; ti++ {
		n := 1 + s.Choose(sim.SWork, 6)
		ops := make([]c20op, n)
		for i := range ops {
			ops[i] = g.op()
			ops[i].now = now
		}
		client := ti
		hs = append(hs, s.Spawn(fmt.Sprintf("client#%d", ti), func() {
			for _, op := range ops {
				s.Op(op.String())
				call := s.Stamp()
				res := c20apply(c, hc, op)
				ret := s.Stamp()
				hist = append(hist, rec{client, op, res, call, ret})
			}
		}))
	}
	if !s.WaitTimeout(10*time.Second, hs...) {
		s.Fail("deadlock", s.BlockedSitesOf(hs...), "cache operations did not return: "+s.BlockedSummary())
	}
	s.Quiesce(0)
	if why := c20structural(c, cfg); why != "" {
		s.Fail("invariant", "cache-structure", "after concurrent phase: "+why)
	}
	sort.Slice(hist, func(i, j int) bool { return hist[i].call < hist[j].call })
	var ops []porcupine.Operation
	for _, h := range hist {
		sample = append(sample, fmt.Sprintf("c%d [%d,%d] %v -> %v", h.client, h.call, h.ret, h.op, h.res))
		ops = append(ops, porcupine.Operation{ClientId: h.client, Input: h.op, Output: h.res, Call: int64(h.call), Return: int64(h.ret)})
	}
	if len(hist) >= 2 {
		s.Probe("concurrent-history")
	}
	init := st
	model := porcupine.Model{
		Init: func() interface{} { return init.encode() + "\x00" + fmt.Sprint(len(init.ents)) },
		Step: nil,
	}
	// porcupine needs comparable states: keep the structured state in a side table keyed by its encoding
	states := map[string]c20state{}
	key := func(st c20state) string { k := st.encode(); states[k] = st; return k }
	model.Init = func() interface{} { return key(init) }
	model.Step = func(state, in, out interface{}) (bool, interface{}) {
		ok, nst, _ := c20step(cfg, states[state.(string)], in.(c20op), out.(c20res))
		if !ok {
			return false, state
		}
		return true, key(nst)
	}
	model.DescribeOperation = func(in, out interface{}) string { return fmt.Sprintf("%v -> %v", in, out) }
	hcopy := append([]string(nil), sample...)
	s.AfterRun(func() *sim.Violation {
		switch porcupine.CheckOperationsTimeout(model, ops, 20*time.Second) {
		case porcupine.Illegal:
			kinds := map[string]bool{}
			for _, h := range hist {
				kinds[h.op.kind] = true
			}
			var ks []string
			for k := range kinds {
				ks = append(ks, k)
			}
			sort.Strings(ks)
			return &sim.Violation{Class: "oracle", Site: "not-linearizable", Msg: "concurrent history is not linearizable w.r.t. the LRU model (ops: " + strings.Join(ks, ",") + "):\n  " + strings.Join(hcopy, "\n  ")}
		case porcupine.Unknown:
			s.Probe("porcupine-inconclusive")
		}
		return nil
	})
	_ = unsafe.Pointer(nil)
}

// c20probe counts the rare conditions the workload is meant to reach.
func c20probe(s *sim.Sim, cfg c20cfg, st c20state, op c20op) {
	switch op.kind {
	case "set", "settags":
		size := int64(len(op.val))
		if cfg.maxSize > 0 && size > cfg.maxSize {
			s.Probe("set:value-larger-than-maxsize")
		}
		if st.find(op.key) >= 0 {
			s.Probe("set:update-existing")
			if cfg.maxSize > 0 {
				var tot int64
				for _, e := range st.ents {
					if e.key != op.key {
						tot += e.size
					}
				}
				if tot+size > cfg.maxSize && size <= cfg.maxSize {
					s.Probe("set:update-forces-eviction")
				}
			}
		} else if len(st.ents) >= cfg.capacity {
			s.Probe("set:eviction-by-count")
		}
	case "get":
		if i := st.find(op.key); i >= 0 && st.ents[i].expired(op.now) {
			s.Probe("get:expired-entry")
		}
	}
}
