package websocket

// glyphsim harness for property C16 — "WebSocket rooms stay consistent under concurrency".
// The complete real stack (HandleWebSocket -> gorilla upgrade -> NewConnection -> hub loop,
// ReadPump/WritePump, default and custom handlers, RoomManager) runs over a simulated network.
// Injected into pkg/websocket at check time; never committed to /repo.

import (
	"bufio"
	"encoding/json"
	"fmt"
	"io"
	"log"
	"net"
	"net/http"
	"net/url"
	"sort"
	"strings"
	"testing"
	"time"
	"unsafe"

	gws "github.com/gorilla/websocket"
	sim "github.com/glyphlang/glyph/pkg/zzsimrt"
)

func TestSim(t *testing.T) {
	log.SetOutput(io.Discard)
	sim.WorkerMain(t, map[string]sim.HarnessFunc{"C16": c16Run})
}

// hijackable ResponseWriter over a simulated connection
type c16writer struct {
	conn net.Conn
	brw  *bufio.ReadWriter
	hdr  http.Header
	code int
}

func (w *c16writer) Header() http.Header { return w.hdr }
func (w *c16writer) WriteHeader(code int) {
	w.code = code
}
func (w *c16writer) Write(b []byte) (int, error) {
	if w.code == 0 {
		w.code = 200
	}
	// a refused upgrade: answer with a plain HTTP error so that the client handshake fails
	fmt.Fprintf(w.conn, "HTTP/1.1 %d %s\r\nContent-Length: %d\r\n\r\n", w.code, http.StatusText(w.code), len(b))
	return w.conn.Write(b)
}
func (w *c16writer) Hijack() (net.Conn, *bufio.ReadWriter, error) { return w.conn, w.brw, nil }

type c16obs struct {
	at    uint64
	simAt time.Duration
	raw   string
	u     string // unique payload id, if any
	room  string
	typ   string
}

type c16client struct {
	id       int
	ws       *gws.Conn
	nc       *sim.SimConn
	obs      []c16obs
	closedAt uint64 // stamp at which the client closed its side (0 = open)
	readerH  *sim.Handle
	deafUntil time.Duration // the client does not read from its socket until then (no pongs either)
	connectedAt time.Duration
	srv      *Connection
	refused  bool
}

type c16memb struct {
	kind      string // join | leave
	call, ret uint64 // ret = 0: completion not observed
	wire      bool   // requested with a frame: completes when the confirmation is observed
}

type c16bcast struct {
	u       string
	room    string // "" = to all
	call    uint64
	exclude int // client id excluded, -1 none
}

type c16world struct {
	s       *sim.Sim
	cfg     *Config
	srv     *Server
	clients []*c16client
	conns   []*Connection             // every server-side connection ever registered
	byID    map[string]*c16client     // server connection ID -> client
	memb    map[string][]c16memb      // "clientID/room" -> join/leave events
	bcasts  map[string]*c16bcast      // unique payload -> broadcast
	gone    map[string]uint64         // server connection ID -> stamp at which the hub ran its disconnect handlers
	marks   map[string]c16mark        // unique payload -> marker sent after a completed leave
	sample  []string
	nuniq   int
	faultsDone bool
}

var c16rooms = []string{"r1", "r2", "r3", "r4"}

// c16oddRooms: look-alike names (padding, case, a tab) next to the plain ones
var c16oddRooms = []string{"r1", "r1 ", " r1", "R1", "r2", "r2\t"}

// c16mark: a marker queued for a connection (Send) right after an API-level LeaveRoom returned
type c16mark struct {
	client    int
	room      string
	leaveCall uint64
}

func (w *c16world) logf(format string, a ...any) {
	if len(w.sample) < 90 {
		w.sample = append(w.sample, fmt.Sprintf("[%d t=%v] ", w.s.Stamp(), w.s.Now())+fmt.Sprintf(format, a...))
	}
}

func (w *c16world) uniq(prefix string) string {
	w.nuniq++
	return fmt.Sprintf("%s%d", prefix, w.nuniq)
}

func (w *c16world) noteMemb(client int, room, kind string, call, ret uint64) {
	k := fmt.Sprintf("%d/%s", client, room)
	w.memb[k] = append(w.memb[k], c16memb{kind: kind, call: call, ret: ret})
}

// connect performs the handshake: a server-side task parses the HTTP request from the simulated
// connection and calls the real HandleWebSocket with a hijackable writer.
func (w *c16world) connect(id int) *c16client {
	s := w.s
	capacity := []int{256, 1024, 64 << 10}[s.Choose(sim.SWork, 3)]
	cc, sc := sim.NewSimConnPair(fmt.Sprintf("c%d", id), capacity)
	c := &c16client{id: id, nc: cc}
	w.clients = append(w.clients, c)
	s.Spawn(fmt.Sprintf("accept#%d", id), func() {
		br := bufio.NewReader(sc)
		req, err := http.ReadRequest(br)
		if err != nil {
			sc.Close()
			return
		}
		wr := &c16writer{conn: sc, brw: bufio.NewReadWriter(br, bufio.NewWriter(sc)), hdr: http.Header{}}
		w.srv.HandleWebSocket(wr, req)
	})
	u, _ := url.Parse("ws://sim.local/ws")
	hdr := http.Header{}
	hdr.Set("X-Sim-Client", fmt.Sprint(id))
	ws, _, err := gws.NewClient(cc, u, hdr, 1024, 1024)
	if err != nil {
		w.logf("client %d: handshake failed: %v", id, err)
		c.refused = true
		cc.Close()
		return c
	}
	c.ws = ws
	c.connectedAt = s.Now()
	w.logf("client %d connected", id)
	c.readerH = s.Spawn(fmt.Sprintf("reader#%d", id), func() {
		for {
			if d := c.deafUntil - s.Now(); d > 0 {
				s.Sleep(d) // a stalled client: frames and pings pile up unanswered
				continue
			}
			_, data, err := ws.ReadMessage()
			if err != nil {
				return
			}
			for _, part := range strings.Split(string(data), "\n") {
				if strings.TrimSpace(part) == "" {
					continue
				}
				o := c16obs{at: s.Stamp(), simAt: s.Now(), raw: part}
				var m struct {
					Type string          `json:"type"`
					Room string          `json:"room"`
					Data json.RawMessage `json:"data"`
					U    string          `json:"u"`
				}
				if json.Unmarshal([]byte(part), &m) == nil {
					o.typ, o.room, o.u = m.Type, m.Room, m.U
					var d struct {
						U    string `json:"u"`
						Type string `json:"type"`
						Room string `json:"room"`
					}
					if len(m.Data) > 0 && json.Unmarshal(m.Data, &d) == nil {
						if d.U != "" {
							o.u = d.U
						}
						if d.Type == "leave_room_success" || d.Type == "join_room_success" {
							o.typ = d.Type
							o.room = d.Room
						}
					}
				}
				c.obs = append(c.obs, o)
			}
		}
	})
	// introduce ourselves so that the harness can pair client and server-side connection
	c.send(map[string]any{"type": "json", "event": "hello", "data": map[string]any{"client": id}})
	return c
}

func (c *c16client) send(v any) error {
	if c.ws == nil {
		return fmt.Errorf("not connected")
	}
	b, _ := json.Marshal(v)
	// like a real client: give up on a peer that does not drain its socket
	c.ws.SetWriteDeadline(time.Now().Add(2 * time.Second))
	return c.ws.WriteMessage(gws.TextMessage, b)
}

func c16Run(s *sim.Sim, p *sim.Params) {
	s.SetLimits(800_000, 0)
	cfg := DefaultConfig()
	cfg.MaxConnectionsPerHub = []int{0, 1, 2, 3, 4}[s.Choose(sim.SWork, 5)]
	cfg.MaxConnectionsPerRoom = []int{0, 1, 2, 3}[s.Choose(sim.SWork, 4)]
	hotRoomPick := s.Choose(sim.SWork, 3) == 0
	if hotRoomPick {
		// one or two seats, or no seat limit at all (members then come and go freely, so the room
		// keeps becoming empty while others are joining it)
		cfg.MaxConnectionsPerRoom = []int{1, 2, 0, 1, 2, 0, 3}[s.Choose(sim.SWork, 7)]
	}
	cfg.MessageQueueSize = 1 + s.Choose(sim.SWork, 4)
	cfg.MessageQueueStrategy = []QueueStrategy{QueueStrategyDropOldest, QueueStrategyDropNewest, QueueStrategyBlock}[s.Choose(sim.SWork, 3)]
	cfg.EnableHeartbeat = s.Choose(sim.SWork, 2) == 1
	cfg.HeartbeatInterval = time.Second
	// (either the read deadline or the missed-pong count notices a silent peer first)
	cfg.PongWaitTimeout = []time.Duration{3 * time.Second, 10 * time.Second}[s.Choose(sim.SWork, 2)]
	cfg.HeartbeatTimeout = cfg.PongWaitTimeout + time.Second
	cfg.MaxMissedPongs = 2
	cfg.WriteWait = 500 * time.Millisecond
	cfg.EnableReconnection = s.Choose(sim.SWork, 2) == 1
	cfg.ReconnectionTimeout = 2 * time.Second
	cfg.MaxReconnectionTime = 5 * time.Second
	// "silent peer" runs: heartbeats on, the blocking queue strategy with one or two slots, the
	// missed-pong count noticing a silent peer before the read deadline does, and the first client
	// going deaf while it keeps asking for replies on the heartbeat's beat
	silentPeer := s.Choose(sim.SWork, 12) == 0
	if silentPeer {
		cfg.EnableHeartbeat = true
		cfg.MessageQueueStrategy = QueueStrategyBlock
		cfg.MessageQueueSize = 1 + s.Choose(sim.SWork, 2)
		cfg.PongWaitTimeout = 10 * time.Second
		cfg.HeartbeatTimeout = 11 * time.Second
		if cfg.MaxConnectionsPerHub == 1 {
			cfg.MaxConnectionsPerHub = 2
		}
		s.Probe("silent-peer-run")
	}
	hub := NewHubWithConfig(cfg)
	w := &c16world{s: s, cfg: cfg, srv: &Server{hub: hub, upgrader: newUpgrader(cfg)}, byID: map[string]*c16client{}, memb: map[string][]c16memb{}, bcasts: map[string]*c16bcast{}, gone: map[string]uint64{}, marks: map[string]c16mark{}}
	defer func() { s.Note("sample", w.sample) }()
	w.logf("config hubMax=%d roomMax=%d queue=%d/%s heartbeat=%v reconnection=%v", cfg.MaxConnectionsPerHub, cfg.MaxConnectionsPerRoom, cfg.MessageQueueSize, cfg.MessageQueueStrategy, cfg.EnableHeartbeat, cfg.EnableReconnection)
	handlersOnHub := s.Choose(sim.SWork, 3) != 0
	// handlers registered the way applications do; they run on the hub loop
	hub.OnConnect(func(conn *Connection) error {
		sim.NoteKey(conn)
		w.conns = append(w.conns, conn)
		return nil
	})
	hub.OnDisconnect(func(conn *Connection) error {
		w.gone[conn.ID] = s.Stamp()
		return nil
	})
	hub.OnEvent("hello", func(ctx *MessageContext) error {
		if d, ok := ctx.Message.Data.(map[string]interface{}); ok {
			if f, ok := d["client"].(float64); ok {
				for _, cl := range w.clients { // (connect order is not id order)
					if cl.id == int(f) {
						cl.srv = ctx.Conn
						w.byID[ctx.Conn.ID] = cl
					}
				}
			}
		}
		return nil
	})
	if handlersOnHub {
		hub.OnEvent("ev-join", func(ctx *MessageContext) error {
			room := ctx.Message.Room
			if cl := w.byID[ctx.Conn.ID]; cl != nil {
				w.noteMemb(cl.id, room, "join", s.Stamp(), 0)
			}
			ctx.Conn.JoinRoom(room)
			return nil
		})
		hub.OnEvent("ev-broadcast", func(ctx *MessageContext) error {
			ctx.Broadcast(MessageTypeJSON, ctx.Message.Data)
			return nil
		})
		hub.OnEvent("ev-close", func(ctx *MessageContext) error {
			s.Probe("handler-closes-connection")
			return ctx.Conn.Close()
		})
		hub.OnEvent("ev-send", func(ctx *MessageContext) error {
			return ctx.Conn.Send([]byte(`{"type":"json","data":{"note":"direct"}}`))
		})
	}
	sim.Go("hub.Run", hub.Run)

	// step invariants (evaluated while every task is parked; skipped inside critical sections)
	s.Invariant("hub-connection-limit", func() error {
		if cfg.MaxConnectionsPerHub > 0 && !s.Held(unsafe.Pointer(&hub.connMu)) && len(hub.connections) > cfg.MaxConnectionsPerHub {
			return fmt.Errorf("%d registered connections exceed MaxConnectionsPerHub=%d", len(hub.connections), cfg.MaxConnectionsPerHub)
		}
		return nil
	})
	s.Invariant("room-size-limit", func() error {
		if cfg.MaxConnectionsPerRoom <= 0 || s.Held(unsafe.Pointer(&hub.roomManager.mu)) {
			return nil
		}
		for name, r := range hub.roomManager.rooms {
			if !s.Held(unsafe.Pointer(&r.mu)) && len(r.connections) > cfg.MaxConnectionsPerRoom {
				return fmt.Errorf("room %s has %d members, MaxConnectionsPerRoom=%d", name, len(r.connections), cfg.MaxConnectionsPerRoom)
			}
		}
		return nil
	})

	// "hot room" runs: every join targets one room that has one or two seats, from clients
	// (hub goroutine) and several actors (other goroutines) at once
	hotRoom := hotRoomPick
	rooms := c16rooms
	if hotRoom {
		rooms = c16rooms[:1]
		s.Probe("hot-room-run")
	} else if s.Choose(sim.SWork, 4) == 0 {
		// room names are opaque strings: names that differ only in padding or case are different
		// rooms, in the rooms' view and in every connection's own view alike
		rooms = c16oddRooms
		s.Probe("odd-room-names-run")
	}
	// "sparse room" runs: two connections, one room without a seat limit, and only actors join and
	// leave it — the room keeps becoming empty while the other connection is joining it
	sparse := hotRoom && s.Choose(sim.SWork, 3) == 0
	if sparse {
		cfg.MaxConnectionsPerRoom = 0
		s.Probe("sparse-room-run")
	}
	nclients := 2 + s.Choose(sim.SWork, 5)
	if p.Tier == "thorough" && s.Choose(sim.SWork, 3) == 0 {
		nclients = 5 + s.Choose(sim.SWork, 6) // the thorough tier also explores more crowded hubs
		s.SetLimits(2_500_000, 0)
	}
	if sparse {
		nclients = 2
	}
	var hs []*sim.Handle
	for ci := 0; ci < nclients; ci++ {
		id := ci
		nops := 2 + s.Choose(sim.SWork, 10)
		type op struct {
			kind string
			room string
			d    time.Duration
		}
		ops := make([]op, nops)
		for i := range ops {
			o := op{room: rooms[s.Choose(sim.SWork, len(rooms))]}
			r1 := s.Choose(sim.SWork, 24)
			if sparse {
				r1 = []int{8, 9, 13, 14, 15, 16, 8, 15}[s.Choose(sim.SWork, 8)] // broadcasts, pings, sleeps
			}
			switch r := r1; {
			case r < 6:
				o.kind = "join"
			case r < 8:
				o.kind = "leave"
			case r < 13:
				o.kind = "broadcast-room"
			case r < 14:
				o.kind = "broadcast-all"
			case r < 15:
				o.kind = "ping"
			case r < 17:
				o.kind = "sleep"
				o.d = []time.Duration{time.Millisecond, 200 * time.Millisecond, 1500 * time.Millisecond, 4 * time.Second}[s.Choose(sim.SWork, 4)]
			case r < 18:
				o.kind = "close"
			case r < 19:
				o.kind = "vanish"
			case r < 20:
				o.kind = "ev-join"
			case r < 21:
				o.kind = "ev-broadcast"
			case r < 22:
				o.kind = "ev-close"
			case r < 23:
				o.kind = "ev-send"
			default:
				switch s.Choose(sim.SWork, 3) {
				case 0:
					o.kind = "deaf"
					o.d = []time.Duration{time.Second, 4 * time.Second, 8 * time.Second}[s.Choose(sim.SWork, 3)]
				case 1:
					o.kind = "deaf-chatter" // stops reading (answers no ping) but keeps asking for replies, on the heartbeat's beat
				default:
					o.kind = "garbage"
				}
			}
			if silentPeer && ci == 0 && i == 0 {
				o.kind = "deaf-chatter"
			}
			ops[i] = o
		}
		hs = append(hs, s.Spawn(fmt.Sprintf("client#%d", id), func() {
			c := w.connect(id)
			if c.ws == nil {
				return
			}
			for _, o := range ops {
				if c.closedAt != 0 {
					return
				}
				s.Op(o.kind)
				var err error
				switch o.kind {
				case "join":
					w.noteMemb(id, o.room, "join", s.Stamp(), 0)
					w.memb[fmt.Sprintf("%d/%s", id, o.room)][len(w.memb[fmt.Sprintf("%d/%s", id, o.room)])-1].wire = true
					err = c.send(map[string]any{"type": "join_room", "room": o.room})
				case "leave":
					// completion is observed through the leave_room_success confirmation
					w.noteMemb(id, o.room, "leave-sent", s.Stamp(), 0)
					err = c.send(map[string]any{"type": "leave_room", "room": o.room})
				case "broadcast-room":
					u := w.uniq("b")
					w.bcasts[u] = &c16bcast{u: u, room: o.room, call: s.Stamp(), exclude: id}
					err = c.send(map[string]any{"type": "broadcast", "room": o.room, "data": map[string]any{"u": u}})
				case "broadcast-all":
					u := w.uniq("g")
					w.bcasts[u] = &c16bcast{u: u, call: s.Stamp(), exclude: -1}
					err = c.send(map[string]any{"type": "broadcast", "data": map[string]any{"u": u}})
				case "ping":
					err = c.send(map[string]any{"type": "ping"})
				case "sleep":
					s.Sleep(o.d)
				case "close":
					w.logf("client %d closes", id)
					c.ws.WriteControl(gws.CloseMessage, gws.FormatCloseMessage(gws.CloseNormalClosure, ""), time.Now().Add(time.Second))
					c.closedAt = s.Stamp()
					c.nc.Close()
					s.Fault("client-close")
				case "vanish":
					w.logf("client %d vanishes", id)
					c.closedAt = s.Stamp()
					c.nc.Close()
					s.Fault("client-vanish")
				case "ev-join":
					if handlersOnHub {
						err = c.send(map[string]any{"type": "json", "event": "ev-join", "room": o.room})
					}
				case "ev-broadcast":
					if handlersOnHub {
						u := w.uniq("h")
						w.bcasts[u] = &c16bcast{u: u, call: s.Stamp(), exclude: -1}
						err = c.send(map[string]any{"type": "json", "event": "ev-broadcast", "data": map[string]any{"u": u}})
					}
				case "ev-close":
					if handlersOnHub {
						err = c.send(map[string]any{"type": "json", "event": "ev-close"})
					}
				case "ev-send":
					if handlersOnHub {
						err = c.send(map[string]any{"type": "json", "event": "ev-send"})
					}
				case "deaf":
					c.deafUntil = s.Now() + o.d
					s.Fault("client-stops-reading")
				case "deaf-chatter":
					c.deafUntil = s.Now() + 9*time.Second
					s.Fault("client-stops-reading")
					for beat := 0; beat < 5 && err == nil; beat++ {
						// wake on the next whole second since the connection was made: the
						// heartbeat ticker of this connection fires at the same instants
						since := s.Now() - c.connectedAt
						s.Sleep(time.Second - since%time.Second)
						for k := 0; k < 3 && err == nil; k++ {
							err = c.send(map[string]any{"type": "ping"})
						}
					}
				case "garbage":
					c.ws.SetWriteDeadline(time.Now().Add(2 * time.Second))
					err = c.ws.WriteMessage(gws.TextMessage, []byte("{not json"))
				}
				if err != nil {
					return
				}
			}
		}))
	}
	// actors: the public API as HTTP routes and handlers use it, from other goroutines
	nactors := s.Choose(sim.SWork, 4)
	if hotRoom && nactors < 2 {
		nactors = 2 + s.Choose(sim.SWork, 2)
	}
	if sparse {
		// the actors start once both connections exist
		s.Sleep(10 * time.Millisecond)
	}
	for ai := 0; ai < nactors; ai++ {
		nops := 2 + s.Choose(sim.SWork, 8)
		if sparse {
			nops += 6
		}
		type op struct {
			kind string
			room string
			pick int
			d    time.Duration
		}
		ops := make([]op, nops)
		for i := range ops {
			o := op{room: rooms[s.Choose(sim.SWork, len(rooms))], pick: s.Choose(sim.SWork, 8)}
			r0 := s.Choose(sim.SWork, 14)
			if hotRoom && s.Choose(sim.SWork, 2) == 0 {
				r0 = s.Choose(sim.SWork, 5) // joins and leaves
			}
			if sparse {
				r0 = []int{0, 1, 2, 3, 4, 3, 0, 8}[s.Choose(sim.SWork, 8)]
			}
			switch r := r0; {
			case r < 3:
				o.kind = "api-join"
			case r < 5:
				o.kind = "api-leave"
			case r < 7:
				o.kind = "api-send"
			case r < 8:
				o.kind = "api-close"
			case r < 10:
				o.kind = "hub-broadcast-room"
				if s.Choose(sim.SWork, 3) == 0 {
					o.kind = "rm-broadcast-room"
				}
			case r < 11:
				o.kind = "hub-broadcast"
			case r < 12:
				o.kind = "restore"
				if s.Choose(sim.SWork, 3) == 0 {
					o.kind = "hub-broadcast-burst" // a route handler fanning out many messages at once
				}
			default:
				o.kind = "sleep"
				o.d = []time.Duration{time.Millisecond, 300 * time.Millisecond, 2500 * time.Millisecond}[s.Choose(sim.SWork, 3)]
			}
			ops[i] = o
		}
		ai := ai
		hs = append(hs, s.Spawn(fmt.Sprintf("actor#%d", ai), func() {
			for _, o := range ops {
				s.Op(o.kind)
				var conn *Connection
				var cl *c16client
				if len(w.conns) > 0 {
					conn = w.conns[o.pick%len(w.conns)]
					cl = w.byID[conn.ID]
				}
				switch o.kind {
				case "api-join":
					if conn != nil && cl != nil {
						call := s.Stamp()
						k := fmt.Sprintf("%d/%s", cl.id, o.room)
						w.noteMemb(cl.id, o.room, "join", call, 0)
						idx := len(w.memb[k]) - 1
						conn.JoinRoom(o.room)
						w.memb[k][idx].ret = s.Stamp()
					}
				case "api-leave":
					if conn != nil && cl != nil {
						call := s.Stamp()
						conn.LeaveRoom(o.room)
						w.noteMemb(cl.id, o.room, "leave", call, s.Stamp())
						if o.pick%2 == 0 {
							// a marker queued behind whatever the room had already queued for it
							u := w.uniq("mk")
							w.marks[u] = c16mark{client: cl.id, room: o.room, leaveCall: call}
							conn.Send([]byte(fmt.Sprintf(`{"type":"json","u":%q,"mark":true}`, u)))
							s.Probe("marker-after-leave")
						}
					}
				case "rm-broadcast-room":
					// the room manager's own synchronous broadcast, as a route handler may call it
					u := w.uniq("s")
					w.bcasts[u] = &c16bcast{u: u, room: o.room, call: s.Stamp(), exclude: -1}
					hub.GetRoomManager().BroadcastToRoom(o.room, []byte(fmt.Sprintf(`{"type":"json","room":%q,"u":%q}`, o.room, u)), nil)
				case "api-send":
					if conn != nil {
						conn.Send([]byte(`{"type":"json","data":{"note":"api"}}`))
					}
				case "api-close":
					if conn != nil {
						w.logf("actor %d closes connection of client %v", ai, cl != nil)
						conn.Close()
						s.Fault("server-close")
					}
				case "hub-broadcast-room":
					u := w.uniq("a")
					w.bcasts[u] = &c16bcast{u: u, room: o.room, call: s.Stamp(), exclude: -1}
					hub.BroadcastToRoom(o.room, []byte(fmt.Sprintf(`{"type":"json","room":%q,"u":%q}`, o.room, u)), nil)
				case "hub-broadcast-burst":
					s.Probe("broadcast-burst")
					for k := 0; k < 300; k++ {
						u := w.uniq("q")
						w.bcasts[u] = &c16bcast{u: u, call: s.Stamp(), exclude: -1}
						hub.Broadcast([]byte(fmt.Sprintf(`{"type":"json","u":%q}`, u)))
					}
				case "hub-broadcast":
					u := w.uniq("x")
					w.bcasts[u] = &c16bcast{u: u, call: s.Stamp(), exclude: -1}
					hub.Broadcast([]byte(fmt.Sprintf(`{"type":"json","u":%q}`, u)))
				case "restore":
					if conn != nil && cl != nil && len(w.conns) > 1 {
						old := w.conns[(o.pick+1)%len(w.conns)]
						// rooms restored from a saved state count as joins from now on
						for _, r := range rooms {
							w.noteMemb(cl.id, r, "join", s.Stamp(), 0)
						}
						hub.RestoreConnectionState(conn, old.ID)
					}
				case "sleep":
					s.Sleep(o.d)
				}
			}
		}))
	}
	if !s.WaitTimeout(3*time.Minute, hs...) {
		s.Fail("deadlock", s.BlockedSitesOf(hs...), "client/actor operations did not complete: "+s.BlockedSummary())
	}
	w.faultsDone = true
	s.SetClockJumps(false) // faults stop here: the liveness bound is in simulated seconds
	// heartbeats tick forever, so "no timer pending" never holds: wait a bounded time instead
	s.Sleep(5 * time.Second)
	s.Quiesce(0)
	w.checkViews("after-workload")
	w.checkDelivery()
	w.liveness()
}

// checkViews: at a quiescent point both views of membership agree, and a disconnected
// connection is in no room.
func (w *c16world) checkViews(when string) {
	s := w.s
	hub := w.srv.hub
	registered := map[*Connection]bool{}
	for c := range hub.connections {
		registered[c] = true
	}
	for _, conn := range w.conns {
		own := map[string]bool{}
		for r := range conn.rooms {
			own[r] = true
		}
		in := map[string]bool{}
		for name, r := range hub.roomManager.rooms {
			if r.connections[conn] {
				in[name] = true
			}
		}
		desc := fmt.Sprintf("connection of client %v (registered=%v): own view %v, rooms containing it %v", clientOf(w, conn), registered[conn], keys(own), keys(in))
		if !registered[conn] {
			s.Probe("disconnected-connection-checked")
			// a disconnected connection receives nothing: at this quiescent point its disconnect
			// completed long ago, so nothing offered to it now may end up in its outbound queue
			// (several attempts: an implementation that picks among ready alternatives at random
			// must refuse every time)
			if when == "after-workload" {
				queued := len(conn.send)
				for i := 0; i < 6; i++ {
					conn.Send([]byte(`{"type":"json","data":{"note":"after-disconnect"}}`))
					conn.SendJSON(map[string]string{"note": "after-disconnect"})
				}
				if len(conn.send) > queued {
					s.Fail("oracle", "queued-after-disconnect", fmt.Sprintf("%s: %d messages offered to a connection whose disconnect had completed were accepted into its outbound queue (%d -> %d)", when, 12, queued, len(conn.send)))
				}
				s.Probe("send-after-disconnect-tried")
			}
			if len(in) > 0 {
				s.Fail("invariant", "disconnected-in-room", when+": a disconnected connection is still a member of a room: "+desc)
			}
			if len(own) > 0 {
				s.Fail("invariant", "disconnected-own-view", when+": a disconnected connection still lists rooms in its own view: "+desc)
			}
			continue
		}
		if fmt.Sprint(keys(own)) != fmt.Sprint(keys(in)) {
			s.Fail("invariant", "views-disagree", when+": the connection's own view and the rooms' membership differ: "+desc)
		}
	}
	s.Probe("views-checked")
}

func clientOf(w *c16world, conn *Connection) any {
	if cl := w.byID[conn.ID]; cl != nil {
		return cl.id
	}
	return "?"
}

func keys(m map[string]bool) []string {
	var ks []string
	for k := range m {
		ks = append(ks, k)
	}
	sort.Strings(ks)
	return ks
}

// checkDelivery: a room message reaches only connections that were possibly members.
func (w *c16world) checkDelivery() {
	s := w.s
	// a leave requested over the wire is complete once its confirmation has been observed
	for _, c := range w.clients {
		for _, o := range c.obs {
			if o.typ == "join_room_success" {
				evs := w.memb[fmt.Sprintf("%d/%s", c.id, o.room)]
				for i := range evs {
					if evs[i].kind == "join" && evs[i].wire && evs[i].ret == 0 {
						evs[i].ret = o.at
						break
					}
				}
			}
			if o.typ != "leave_room_success" {
				continue
			}
			k := fmt.Sprintf("%d/%s", c.id, o.room)
			evs := w.memb[k]
			for i := range evs {
				if evs[i].kind == "leave-sent" {
					evs[i].kind = "leave"
					evs[i].ret = o.at
					break
				}
			}
		}
	}
	for _, c := range w.clients {
		var seen []c16mark // markers this client has observed so far, in arrival order
		for _, o := range c.obs {
			if mk, ok := w.marks[o.u]; ok && o.u != "" && mk.client == c.id {
				seen = append(seen, mk)
				s.Probe("marker-observed")
				continue
			}
			b := w.bcasts[o.u]
			if o.u == "" || b == nil {
				continue
			}
			// a connection's queue is first-in first-out: whatever a room queued for a member was
			// queued before that member's LeaveRoom returned, so it arrives before a marker
			// queued after the return — a room message behind the marker was handed to a
			// connection that was no longer a member
			if b.room != "" {
				for _, mk := range seen {
					if mk.room != b.room {
						continue
					}
					rejoined := false
					for _, j := range w.memb[fmt.Sprintf("%d/%s", c.id, b.room)] {
						if j.kind == "join" && j.call < o.at && (j.ret == 0 || j.ret > mk.leaveCall) {
							rejoined = true
						}
					}
					if !rejoined {
						s.Fail("oracle", "delivered-after-leave", fmt.Sprintf("client %d observed room message %s for room %q behind the marker that was queued for it after its LeaveRoom(%q) had returned, and it did not rejoin: the message was queued for a connection that had left the room", c.id, o.u, b.room, b.room))
					}
				}
			}
			// nothing is delivered to a connection after its disconnect completed: a message whose
			// broadcast was invoked after the hub had finished unregistering the connection
			if c.srv != nil {
				if g, ok := w.gone[c.srv.ID]; ok && b.call > g {
					s.Fail("oracle", "delivered-after-disconnect", fmt.Sprintf("client %d observed %s, broadcast at %d, although the hub had completed its disconnect at %d", c.id, o.u, b.call, g))
				}
			}
			if b.room == "" {
				continue // broadcast to all
			}
			s.Probe("room-message-observed")
			if b.exclude == c.id {
				s.Fail("oracle", "sender-received-own-room-broadcast", fmt.Sprintf("client %d received its own room broadcast %s", c.id, o.u))
			}
			evs := w.memb[fmt.Sprintf("%d/%s", c.id, b.room)]
			joinedBefore := false
			for _, e := range evs {
				if e.kind == "join" && e.call < o.at {
					joinedBefore = true
				}
			}
			if !joinedBefore {
				s.Fail("oracle", "delivered-to-non-member", fmt.Sprintf("client %d observed room message %s for room %s at %d but never asked to join that room before", c.id, o.u, b.room, o.at))
			}
			// a completed leave (API call returned, or confirmation observed) before the broadcast
			// was invoked, with no join that may have taken effect after the leave was invoked
			// (a join takes effect somewhere between its invocation and its completion; a join
			// requested over the wire completes when its confirmation is observed)
			for _, e := range evs {
				if e.kind != "leave" || e.ret == 0 || e.ret >= b.call {
					continue
				}
				rejoined := false
				for _, j := range evs {
					if j.kind == "join" && j.call < o.at && (j.ret == 0 || j.ret > e.call) {
						rejoined = true
					}
				}
				if !rejoined {
					s.Fail("oracle", "delivered-after-leave", fmt.Sprintf("client %d observed room message %s (broadcast invoked at %d) for room %s although its leave had completed at %d and it did not rejoin", c.id, o.u, b.call, b.room, e.ret))
				}
			}
		}
	}
}

// liveness: once faults stop a fresh client connects, joins a room and receives a broadcast.
func (w *c16world) liveness() {
	s := w.s
	if w.cfg.MaxConnectionsPerHub > 0 && len(w.srv.hub.connections) >= w.cfg.MaxConnectionsPerHub {
		// the hub is legitimately full: make room by closing every client first
		for _, c := range w.clients {
			if c.ws != nil && c.closedAt == 0 {
				c.closedAt = s.Stamp()
				c.nc.Close()
			}
		}
		s.Sleep(5 * time.Second)
		s.Quiesce(0)
		w.checkViews("after-closing-all")
	}
	done := false
	room := "live"
	u := w.uniq("L")
	probe := s.Spawn("liveness-probe", func() {
		c := w.connect(1000 + len(w.clients))
		if c.ws == nil {
			return
		}
		c.send(map[string]any{"type": "join_room", "room": room})
		// wait for the confirmation, then have the hub broadcast to the room
		for i := 0; i < 200 && !done; i++ {
			for _, o := range c.obs {
				if o.typ == "join_room_success" {
					w.srv.hub.BroadcastToRoom(room, []byte(fmt.Sprintf(`{"type":"json","room":%q,"u":%q}`, room, u)), nil)
					for k := 0; k < 200 && !done; k++ {
						for _, o2 := range c.obs {
							if o2.u == u {
								done = true
							}
						}
						if !done {
							s.Sleep(50 * time.Millisecond)
						}
					}
					return
				}
			}
			s.Sleep(50 * time.Millisecond)
		}
	})
	ok := s.WaitTimeout(60*time.Second, probe)
	if !ok || !done {
		s.Fail("deadlock", "liveness:"+s.BlockedSitesOf(probe)+"|hub:"+hubBlocked(s), fmt.Sprintf("after faults stopped a fresh client could not connect, join a room and receive a broadcast within 60 simulated seconds (probe finished=%v); blocked: %s", ok, s.BlockedSummary()))
	}
	s.Probe("liveness-probe-ok")
}

func hubBlocked(s *sim.Sim) string {
	for _, part := range strings.Fields(s.BlockedSummary()) {
		if strings.HasPrefix(part, "hub.Run") {
			return part
		}
	}
	return "running"
}
