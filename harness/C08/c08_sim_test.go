package main

// glyphsim harness for property C08 — "concurrent requests do not interfere".
// (S) one long-lived server built by the real pipeline from a corpus module, N request tasks under
// a seeded scheduler: solo-run refinement for routes without providers, atomicity invariants for
// provider routes, race probes everywhere; (P) the mock providers driven directly through their
// Go API by concurrent tasks, linearizability (porcupine) against the provider's own sequential
// behaviour (the model replays the candidate order on a fresh mock).
// Injected into cmd/glyph at check time; never committed to /repo.

import (
	"net/http"
	"encoding/json"
	"fmt"
	"os"
	"sort"
	"strings"
	"testing"
	"time"

	"github.com/anishathalye/porcupine"
	"github.com/glyphlang/glyph/pkg/database"
	"github.com/glyphlang/glyph/pkg/mongodb"
	"github.com/glyphlang/glyph/pkg/redis"
	sim "github.com/glyphlang/glyph/pkg/zzsimrt"
)

func TestSim(t *testing.T) {
	simQuiet()
	sim.WorkerMain(t, map[string]sim.HarnessFunc{"C08": c08Run})
}

func c08Run(s *sim.Sim, p *sim.Params) {
	s.SetLimits(1_500_000, 0)
	mode := s.Choose(sim.SWork, 10)
	if k := p.Knob("mode", -1); k >= 0 {
		mode = k
	}
	switch {
	case mode < 4:
		c08Server(s, p, false)
	case mode < 7:
		c08Server(s, p, true)
	default:
		c08Providers(s, p)
	}
}

const c08secret = "c08-secret-token"

var c08pure = c08nest(`
const DEFAULTS = {retries: 3, seen: 0, tags: ["base"]}

: Item {
  name: str!
  qty: int!
}

: NewTicket {
  title: str!
  urgent: bool = false
  labels: [str] = ["untriaged"]
  meta: object = {escalations: 0}
}

! fact(n: int): int {
  if n <= 1 {
    > 1
  }
  > n * fact(n - 1)
}

! depth(n: int): int {
  if n <= 0 {
    > 0
  }
  > 1 + depth(n - 1)
}

! identity<T>(x: T): T {
  > x
}

! first<T>(a: T, b: T): T {
  > a
}

! deepen(x: int): int {
  > x + (NEST140)
}

! isBig(x: int): bool {
  > x + (NEST90) > 100
}

@ GET /pure/fact/:n {
  $ k = parseInt(n)
  > {route: "fact", n: k, value: fact(k)}
}

@ GET /pure/cb/:n {
  $ k = parseInt(n)
  $ ys = map([k, k + 1, k + 2], deepen)
  $ big = filter([k, k + 90], isBig)
  > {route: "cb", ys: ys, big: big}
}

@ GET /pure/nested/:n {
  $ k = parseInt(n)
  $ outer = async {
    $ i = 0
    $ acc = 0
    while i < 4 {
      acc = acc + i
      i = i + 1
    }
    $ inner = async {
      > k * 3
    }
    $ v = await inner
    > v + acc
  }
  $ r = await outer
  > {route: "nested", value: r}
}

@ GET /out/plain/:what {
  $ r = http.get("http://up.sim/" + what)
  > {route: "out-plain", status: r.status, body: r.body}
}

@ GET /out/hurried/:what {
  $ r = http.get({url: "http://up.sim/" + what, timeout: 150})
  > {route: "out-hurried", status: r.status, body: r.body}
}

@ GET /out/nofollow {
  $ r = http.get({url: "http://up.sim/moved", followRedirects: false})
  > {route: "out-nofollow", status: r.status}
}

@ GET /out/patient/:what {
  $ r = http.get({url: "http://up.sim/" + what, timeout: 90000, headers: {Trace: what}})
  > {route: "out-patient", status: r.status, body: r.body}
}

@ GET /pure/depth/:n {
  $ k = parseInt(n)
  > {route: "depth", n: k, value: depth(k)}
}

@ GET /pure/gint/:n {
  $ k = parseInt(n)
  $ a = identity(k)
  $ b = first(k, 7)
  > {route: "gint", a: a, b: b, sum: a + b}
}

@ GET /pure/gstr/:s {
  $ a = identity(s)
  $ b = first(s, "zz")
  > {route: "gstr", a: a, b: b, up: upper(a)}
}

@ GET /pure/loop/:n {
  $ k = parseInt(n)
  $ i = 0
  $ acc = 0
  while i < k {
    acc = acc + i * 3
    i = i + 1
  }
  $ items = []
  for j in [1, 2, 3] {
    items = items + [j * k]
  }
  > {route: "loop", acc: acc, items: items}
}

@ GET /pure/strings/:s {
  > {route: "strings", up: upper(s), len: length(s), joined: s + "-" + s}
}

@ GET /pure/async/:n {
  $ k = parseInt(n)
  $ f1 = async {
    > k * 2
  }
  $ f2 = async {
    > k + 100
  }
  $ a = await f1
  $ b = await f2
  > {route: "async", a: a, b: b}
}

@ GET /pure/query {
  > {route: "query", x: query.x, y: query.y}
}

@ POST /pure/typed {
  < input: Item
  > {route: "typed", name: input.name, twice: input.qty * 2}
}

@ GET /guarded/:n {
  + auth(jwt)
  + ratelimit(100000/min)
  $ k = parseInt(n)
  > {route: "guarded", value: k + 1}
}

@ GET /pure/defaults/:n {
  $ k = parseInt(n)
  $ cfg = DEFAULTS
  $ cfg.seen = k
  $ cfg.retries = cfg.retries + 0
  > {route: "defaults", seen: cfg.seen, retries: cfg.retries, base: DEFAULTS.retries}
}

@ POST /pure/ticket {
  < input: NewTicket
  if input.urgent {
    $ input.meta.escalations = input.meta.escalations + 1
    $ input.labels = input.labels + ["urgent"]
  }
  > {route: "ticket", title: input.title, labels: input.labels, meta: input.meta}
}
`)

// c08nest spells out the deeply nested expressions of the corpus: NESTn is 1 + (1 + (... + 1)),
// n levels deep — deep for one evaluation, far below the interpreter's limit of 500
func c08nest(src string) string {
	for _, n := range []int{140, 90} {
		e := "1"
		for k := 0; k < n-2; k++ {
			e = "1 + (" + e + ")"
		}
		src = strings.ReplaceAll(src, fmt.Sprintf("NEST%d", n), e)
	}
	return src
}

// c08compiled: routes the bytecode compiler and VM support (no user functions, no parseInt)
const c08compiled = `
: Item {
  name: str!
  qty: int!
}

@ GET /c/loop/:s {
  $ i = 0
  $ acc = 0
  while i < 6 {
    acc = acc + i * 3
    i = i + 1
  }
  $ items = []
  for j in [1, 2, 3] {
    items = items + [j * 5]
  }
  > {route: "loop", acc: acc, items: items, s: s}
}

@ GET /c/strings/:s {
  > {route: "strings", up: upper(s), len: length(s), joined: s + "-" + s}
}

@ GET /c/async/:s {
  $ f1 = async {
    > s + "-one"
  }
  $ f2 = async {
    $ k = 0
    $ n = 0
    while k < 4 {
      n = n + k
      k = k + 1
    }
    > n
  }
  $ a = await f1
  $ b = await f2
  > {route: "async", a: a, b: b}
}

@ GET /c/query {
  > {route: "query", x: query.x, y: query.y}
}

@ POST /c/typed {
  < input: Item
  > {route: "typed", name: input.name, twice: input.qty * 2}
}

@ GET /c/guarded/:s {
  + auth(jwt)
  + ratelimit(100000/min)
  > {route: "guarded", value: s + "!"}
}

@ GET /c/branch/:s {
  if s == "alpha" {
    > {route: "branch", pick: 1}
  } else {
    if length(s) > 4 {
      > {route: "branch", pick: 2}
    }
  }
  > {route: "branch", pick: 3}
}
`

const c08prov = `
@ POST /db/users {
  % db: Database
  $ created = db.users.create({name: input.name, tag: input.tag})
  > {route: "db-create", id: created.id, name: created.name}
}

@ GET /db/users/:id {
  % db: Database
  $ u = db.users.get(id)
  > {route: "db-get", user: u}
}

@ PUT /db/users/:id {
  % db: Database
  $ u = db.users.update(id, {name: input.name})
  > {route: "db-update", user: u}
}

@ DELETE /db/users/:id {
  % db: Database
  $ ok = db.users.delete(id)
  > {route: "db-delete", deleted: ok}
}

@ GET /db/users {
  % db: Database
  $ all = db.users.all()
  > {route: "db-all", users: all, n: db.users.length()}
}

@ GET /r/incr/:k {
  % redis: Redis
  $ v = redis.incr(k)
  > {route: "r-incr", key: k, value: v}
}

@ GET /r/set/:k/:v {
  % redis: Redis
  $ r = redis.set(k, v)
  > {route: "r-set", key: k, result: r}
}

@ GET /r/get/:k {
  % redis: Redis
  $ v = redis.get(k)
  > {route: "r-get", key: k, value: v}
}

@ GET /r/lpush/:k/:v {
  % redis: Redis
  $ n = redis.lpush(k, v)
  > {route: "r-lpush", key: k, len: n}
}

@ GET /r/llen/:k {
  % redis: Redis
  $ n = redis.llen(k)
  > {route: "r-llen", key: k, len: n}
}

@ GET /plain/:n {
  $ k = parseInt(n)
  > {route: "plain", value: k * 3}
}

@ GET /r/setex/:k/:v {
  % redis: Redis
  $ r = redis.set(k, v, 1)
  > {route: "r-setex", key: k, result: r}
}

@ GET /bg/:who {
  % redis: Redis
  $ f = async {
    $ i = 0
    while i < 12 {
      i = i + 1
    }
    $ r = redis.set("bg-" + who, who)
    > r
  }
  > {route: "bg", who: who}
}

@ POST /db/articles {
  % db: Database
  $ a = db.articles.create({title: input.title, tags: input.tags, meta: {views: 0, by: input.title}})
  > {route: "a-create", id: a.id}
}

@ GET /db/articles/:id/peek {
  % db: Database
  $ a = db.articles.get(id)
  > {route: "a-peek", article: a}
}

@ GET /db/articles/:id/touch {
  % db: Database
  $ a = db.articles.get(id)
  if a == null {
    > {route: "a-touch", views: 1}
  }
  $ a.meta.views = a.meta.views + 1
  > {route: "a-touch", views: a.meta.views}
}

@ POST /db/articles/search {
  % db: Database
  > {route: "a-search", found: db.articles.filter("tags", input.tags)}
}

@ GET /db/articles/count {
  % db: Database
  > {route: "a-count", n: db.articles.length()}
}
`

type c08result struct {
	task      int
	req       simReq
	resp      simResp
	call, ret uint64
}

func c08desc(r simReq) string {
	m := r.method
	if m == "" {
		m = "GET"
	}
	return fmt.Sprintf("%s %s %s", m, r.path, r.body)
}

func c08genPure(s *sim.Sim) simReq {
	hdr := [][2]string{}
	switch s.Choose(sim.SWork, 22) {
	case 16:
		// named functions as callbacks of map/filter, each recursing on its own
		return simReq{path: fmt.Sprintf("/pure/cb/%d", []int{20, 70, 95}[s.Choose(sim.SWork, 3)])}
	case 17:
		// a block that starts a block and awaits it
		return simReq{path: fmt.Sprintf("/pure/nested/%d", s.Choose(sim.SWork, 30))}
	case 18, 19, 20, 21:
		// outbound calls to a (simulated) upstream: fast, slow (2 s, well within the default
		// timeout), redirecting, and very slow (40 s) for the caller that asked for 90 s of patience;
		// some with per-call options
		switch s.Choose(sim.SWork, 7) {
		case 0:
			return simReq{path: "/out/plain/fast"}
		case 1, 2:
			return simReq{path: "/out/plain/slow"}
		case 3:
			return simReq{path: "/out/hurried/fast"}
		case 4:
			return simReq{path: "/out/nofollow"}
		case 5:
			return simReq{path: "/out/plain/moved"}
		default:
			return simReq{path: "/out/patient/" + []string{"slow", "glacial"}[s.Choose(sim.SWork, 2)]}
		}
	case 14, 15:
		// a request starts from a module-level constant object and adjusts its own copy
		return simReq{path: fmt.Sprintf("/pure/defaults/%d", 1+s.Choose(sim.SWork, 50))}
	case 12, 13:
		// defaults of omitted fields (object and list literals) are per request
		if s.Choose(sim.SWork, 2) == 0 {
			return simReq{method: "POST", path: "/pure/ticket", body: fmt.Sprintf(`{"title":"t%d","urgent":true}`, s.Choose(sim.SWork, 5))}
		}
		return simReq{method: "POST", path: "/pure/ticket", body: fmt.Sprintf(`{"title":"t%d"}`, s.Choose(sim.SWork, 5))}
	case 0:
		return simReq{path: fmt.Sprintf("/pure/fact/%d", 1+s.Choose(sim.SWork, 10))}
	case 1, 2, 3:
		// deep recursion: each request alone stays far below the interpreter's depth limit
		return simReq{path: fmt.Sprintf("/pure/depth/%d", []int{60, 120, 160, 190}[s.Choose(sim.SWork, 4)])}
	case 4:
		return simReq{path: fmt.Sprintf("/pure/gint/%d", s.Choose(sim.SWork, 50))}
	case 5:
		return simReq{path: "/pure/gstr/" + []string{"alpha", "beta", "gamma"}[s.Choose(sim.SWork, 3)]}
	case 6:
		return simReq{path: fmt.Sprintf("/pure/loop/%d", 1+s.Choose(sim.SWork, 6))}
	case 7:
		return simReq{path: "/pure/strings/" + []string{"ab", "hello", "q"}[s.Choose(sim.SWork, 3)]}
	case 8:
		return simReq{path: fmt.Sprintf("/pure/async/%d", s.Choose(sim.SWork, 30))}
	case 9:
		return simReq{path: fmt.Sprintf("/pure/query?x=%d&y=v%d", s.Choose(sim.SWork, 9), s.Choose(sim.SWork, 9))}
	case 10:
		if s.Choose(sim.SWork, 3) == 0 {
			return simReq{method: "POST", path: "/pure/typed", body: `{"name": 5}`} // rejected by the contract
		}
		return simReq{method: "POST", path: "/pure/typed", body: fmt.Sprintf(`{"name":"n%d","qty":%d}`, s.Choose(sim.SWork, 9), s.Choose(sim.SWork, 20))}
	default:
		hdr = append(hdr, [2]string{"Authorization", "Bearer " + c08secret})
		return simReq{path: fmt.Sprintf("/guarded/%d", s.Choose(sim.SWork, 40)), headers: hdr}
	}
}

// c08upstream: the server the corpus calls out to; a pure function of the request.
func c08upstream(req *http.Request) (int, http.Header, string, time.Duration) {
	switch req.URL.Path {
	case "/fast":
		return 200, http.Header{"Content-Type": {"text/plain"}}, "fast", 5 * time.Millisecond
	case "/slow":
		return 200, http.Header{"Content-Type": {"text/plain"}}, "slow" + req.Header.Get("Trace"), 2 * time.Second
	case "/glacial":
		return 200, http.Header{"Content-Type": {"text/plain"}}, "glacial" + req.Header.Get("Trace"), 40 * time.Second
	case "/moved":
		return 302, http.Header{"Location": {"/fast"}}, "", time.Millisecond
	}
	return 404, http.Header{}, "no such page", time.Millisecond
}

func c08genCompiled(s *sim.Sim) simReq {
	w := []string{"alpha", "beta", "gamma", "delta9"}[s.Choose(sim.SWork, 4)]
	switch s.Choose(sim.SWork, 8) {
	case 0:
		return simReq{path: "/c/loop/" + w}
	case 1:
		return simReq{path: "/c/strings/" + w}
	case 2, 3:
		return simReq{path: "/c/async/" + w}
	case 4:
		return simReq{path: fmt.Sprintf("/c/query?x=%d&y=v%d", s.Choose(sim.SWork, 9), s.Choose(sim.SWork, 9))}
	case 5:
		if s.Choose(sim.SWork, 3) == 0 {
			return simReq{method: "POST", path: "/c/typed", body: `{"name": 5}`}
		}
		return simReq{method: "POST", path: "/c/typed", body: fmt.Sprintf(`{"name":"n%d","qty":%d}`, s.Choose(sim.SWork, 9), s.Choose(sim.SWork, 20))}
	case 6:
		return simReq{path: "/c/branch/" + w}
	default:
		return simReq{path: "/c/guarded/" + w, headers: [][2]string{{"Authorization", "Bearer " + c08secret}}}
	}
}

func c08Server(s *sim.Sim, p *sim.Params, providers bool) {
	os.Setenv(envJWTSecret, c08secret)
	defer os.Unsetenv(envJWTSecret)
	var sample []string
	defer func() {
		if len(sample) > 70 {
			sample = append(sample[:70], fmt.Sprintf("... %d more", len(sample)-70))
		}
		s.Note("sample", sample)
	}()
	src := c08pure
	interp := s.Choose(sim.SWork, 2) == 1
	if !interp {
		src = c08compiled
	}
	if providers {
		src = c08prov
		interp = true
	}
	sv, err := simBuildServer(src, interp)
	if err != nil {
		s.InfraFail("C08: corpus does not load: " + err.Error() + "\n" + simLogTail())
	}
	s.SetUpstream("up.sim", c08upstream)
	sample = append(sample, fmt.Sprintf("mode=server providers=%v compiled=%v", providers, sv.compiled))
	ntasks := 2 + s.Choose(sim.SWork, 7)
	maxReq := 4
	crowd := !providers && interp && s.Choose(sim.SWork, 8) == 0
	crowdFocus := 0
	if crowd {
		// "crowd" runs: a hundred or so clients with one or two requests each, all in flight at once
		ntasks = 70 + s.Choose(sim.SWork, 60)
		maxReq = 2
		s.SetLimits(6_000_000, 0)
		s.Probe("crowd-run")
		crowdFocus = s.Choose(sim.SWork, 4)
	}
	if p.Tier == "thorough" && s.Choose(sim.SWork, 3) == 0 {
		// the thorough tier also explores wider and longer runs
		ntasks = 6 + s.Choose(sim.SWork, 8)
		maxReq = 7
		s.SetLimits(4_000_000, 0)
	}
	plans := make([][]simReq, ntasks)
	nuniq := 0
	for ti := range plans {
		n := 1 + s.Choose(sim.SWork, maxReq)
		for k := 0; k < n; k++ {
			var r simReq
			if crowd && crowdFocus > 0 {
				// the whole crowd asks for the same kind of thing
				switch crowdFocus {
				case 1:
					r = simReq{path: fmt.Sprintf("/pure/nested/%d", s.Choose(sim.SWork, 30))}
				case 2:
					r = simReq{path: fmt.Sprintf("/pure/cb/%d", []int{20, 70, 95}[s.Choose(sim.SWork, 3)])}
				default:
					r = simReq{path: fmt.Sprintf("/pure/async/%d", s.Choose(sim.SWork, 30))}
				}
			} else if !providers && interp {
				r = c08genPure(s)
			} else if !providers {
				r = c08genCompiled(s)
			} else {
				nuniq++
				switch s.Choose(sim.SWork, 26) {
				case 21, 22:
					// a value that expires after one second
					r = simReq{path: fmt.Sprintf("/r/setex/k%d/x%d", s.Choose(sim.SWork, 2), nuniq)}
				case 23:
					r = simReq{path: "/sleep"} // the client pauses (1.2 simulated seconds): values expire meanwhile
				case 24, 25:
					// a route that starts a block and answers without awaiting it
					r = simReq{path: "/bg/" + []string{"alice", "bob", "carol", "dave"}[s.Choose(sim.SWork, 4)]}
				case 18, 19:
					// a request changes its own copy of a record it read (nothing is written back)
					r = simReq{path: fmt.Sprintf("/db/articles/%d/touch", 1+s.Choose(sim.SWork, 3))}
				case 20:
					r = simReq{path: fmt.Sprintf("/db/articles/%d/peek", 1+s.Choose(sim.SWork, 3))}
				case 14:
					if s.Choose(sim.SWork, 2) == 0 {
						r = simReq{method: "POST", path: "/db/articles", body: fmt.Sprintf(`{"title":"a%d","tags":["go","t%d"]}`, nuniq, ti)}
					} else {
						r = simReq{method: "POST", path: "/db/articles", body: fmt.Sprintf(`{"title":"a%d","tags":"go"}`, nuniq)}
					}
				case 15:
					r = simReq{method: "POST", path: "/db/articles/search", body: `{"tags":"go"}`}
				case 16:
					// equality with a list: the store cannot evaluate it against records that hold a
					// list (Go lists do not compare); the request may be dropped, nothing else may suffer
					r = simReq{method: "POST", path: "/db/articles/search", body: `{"tags":["go"]}`, abortOK: true}
				case 17:
					r = simReq{path: "/db/articles/count"}
				case 0, 1, 2:
					r = simReq{method: "POST", path: "/db/users", body: fmt.Sprintf(`{"name":"u%d","tag":"t%d"}`, nuniq, ti)}
				case 3:
					r = simReq{path: fmt.Sprintf("/db/users/%d", 1+s.Choose(sim.SWork, 4))}
				case 4:
					r = simReq{method: "PUT", path: fmt.Sprintf("/db/users/%d", 1+s.Choose(sim.SWork, 4)), body: fmt.Sprintf(`{"name":"w%d"}`, nuniq)}
				case 5:
					r = simReq{method: "DELETE", path: fmt.Sprintf("/db/users/%d", 1+s.Choose(sim.SWork, 4))}
				case 6:
					r = simReq{path: "/db/users"}
				case 7, 8:
					r = simReq{path: "/r/incr/" + []string{"c1", "c2"}[s.Choose(sim.SWork, 2)]}
				case 9:
					r = simReq{path: fmt.Sprintf("/r/set/k%d/v%d", s.Choose(sim.SWork, 2), nuniq)}
				case 10:
					r = simReq{path: fmt.Sprintf("/r/get/k%d", s.Choose(sim.SWork, 2))}
				case 11:
					r = simReq{path: fmt.Sprintf("/r/lpush/l1/e%d", nuniq)}
				case 12:
					r = simReq{path: "/r/llen/l1"}
				default:
					r = simReq{path: fmt.Sprintf("/plain/%d", s.Choose(sim.SWork, 30))}
				}
			}
			r.remote = fmt.Sprintf("10.2.0.%d:%d", ti+1, 1000+k)
			if !providers && !r.abortOK && s.Choose(sim.SFault, 12) == 0 {
				// this client hangs up before its answer can be written; what the server
				// does about the failed write is its own business, the other requests are not
				r.hangup = true
			}
			plans[ti] = append(plans[ti], r)
		}
	}
	if !providers && s.Choose(sim.SWork, 4) == 0 {
		// "cold start" runs: the first request of every task is a typed one (valid or not), so that
		// whatever the server builds lazily on first use of a type is built under contention
		s.Probe("cold-start-typed-run")
		for ti := range plans {
			path := "/c/typed"
			if interp {
				path = "/pure/typed"
			}
			body := fmt.Sprintf(`{"name":"n%d","qty":%d}`, ti, ti+1)
			switch s.Choose(sim.SWork, 3) {
			case 0:
				body = `{"name": 5}`
			case 1:
				body = fmt.Sprintf(`{"name":"n%d","qty":%d,"color":"red"}`, ti, ti)
			}
			plans[ti][0] = simReq{method: "POST", path: path, body: body, remote: plans[ti][0].remote}
		}
	}
	// solo references: every request without provider effects, alone on a fresh server
	solo := map[string]simResp{}
	if !providers || true {
		ref, err := simBuildServer(src, interp)
		if err != nil {
			s.InfraFail("C08: corpus does not load: " + err.Error())
		}
		prev := s.SetStrategy(sim.StratRunBlock)
		for _, pl := range plans {
			for _, r := range pl {
				if providers && !strings.HasPrefix(r.path, "/plain/") {
					continue
				}
				k := c08desc(r)
				if _, ok := solo[k]; !ok {
					r.hangup = false // (the reference is what a client that stays would see)
					solo[k] = ref.do(r)
					s.Quiesce(0)
					if strings.HasPrefix(r.path, "/out/") && solo[k].status != 200 {
						// what the upstream does is known: every outbound call of the corpus is
						// answered well within the time its caller allows
						s.Fail("oracle", "outbound-call-fails-alone:"+c08route(r.path), fmt.Sprintf("%s, alone on a fresh server, answered %d %s; its upstream answers well within the time the call allows\n%s", k, solo[k].status, strings.TrimSpace(solo[k].body), strings.Join(sample, "\n")))
					}
					if solo[k].status >= 500 {
						lg := simLogTail()
						if len(lg) > 600 {
							lg = lg[len(lg)-600:]
						}
						s.InfraFail(fmt.Sprintf("C08: corpus request %s fails alone: %d %s\n%s", k, solo[k].status, solo[k].body, lg))
					}
				}
			}
		}
		s.SetStrategy(prev)
	}
	var results []c08result
	var hs []*sim.Handle
	if providers && s.Choose(sim.SWork, 4) == 0 {
		// "expiry" runs: both keys hold a value whose time to live runs out before the concurrent
		// phase starts, so every read in it meets an expired entry while writes are going on
		s.Probe("expired-values-run")
		for k := 0; k < 2; k++ {
			r := simReq{path: fmt.Sprintf("/r/setex/k%d/old%d", k, k), remote: "10.2.0.99:1"}
			call := s.Stamp()
			resp := sv.do(r)
			results = append(results, c08result{99, r, resp, call, s.Stamp()})
		}
		// either well past the expiry, or exactly at it (whatever expires the entries then runs
		// at the same instant as the first requests of the concurrent phase)
		s.Sleep([]time.Duration{1500 * time.Millisecond, time.Second, time.Second}[s.Choose(sim.SWork, 3)])
		for ti := range plans {
			for k := range plans[ti] {
				if s.Choose(sim.SWork, 2) == 0 {
					key := s.Choose(sim.SWork, 2)
					if s.Choose(sim.SWork, 2) == 0 {
						plans[ti][k] = simReq{path: fmt.Sprintf("/r/get/k%d", key), remote: plans[ti][k].remote}
					} else {
						nuniq++
						plans[ti][k] = simReq{path: fmt.Sprintf("/r/set/k%d/v%d", key, nuniq), remote: plans[ti][k].remote}
					}
				}
			}
		}
	}
	for ti := range plans {
		ti := ti
		hs = append(hs, s.Spawn(fmt.Sprintf("request#%d", ti), func() {
			for _, r := range plans[ti] {
				s.Op(c08desc(r))
				if r.path == "/sleep" {
					s.Sleep(1200 * time.Millisecond)
					continue
				}
				call := s.Stamp()
				resp := sv.do(r)
				if r.hangup {
					s.Fault("client-gone-at-write")
					continue // nobody saw an answer
				}
				results = append(results, c08result{ti, r, resp, call, s.Stamp()})
			}
		}))
	}
	if !providers && s.Choose(sim.SWork, 4) == 0 {
		// the same process sets the routes up again while requests are being served (what
		// `glyph dev` does on every save, and what a second server in the process does)
		s.Probe("routes-set-up-again-during-requests")
		hs = append(hs, s.Spawn("setup-again", func() {
			for i := 0; i < 2; i++ {
				if _, err := simBuildServer(src, interp); err != nil {
					s.InfraFail("C08: corpus does not load the second time: " + err.Error())
				}
			}
		}))
	}
	if !s.WaitTimeout(2*time.Minute, hs...) {
		s.Fail("deadlock", s.BlockedSitesOf(hs...), "requests did not complete: "+s.BlockedSummary())
	}
	s.Quiesce(0)
	sort.Slice(results, func(i, j int) bool { return results[i].call < results[j].call })
	for _, r := range results {
		sample = append(sample, fmt.Sprintf("t%d [%d,%d] %s -> %d %s", r.task, r.call, r.ret, c08desc(r.req), r.resp.status, strings.TrimSpace(r.resp.body)))
	}
	for _, r := range results {
		k := c08desc(r.req)
		if want, ok := solo[k]; ok {
			s.Probe("solo-compared")
			if r.resp.status != want.status || r.resp.body != want.body {
				s.Fail("oracle", "solo-refinement:"+c08route(r.req.path), fmt.Sprintf("%s answered %d %s with other requests in flight, but %d %s when it is the only request\n%s", k, r.resp.status, strings.TrimSpace(r.resp.body), want.status, strings.TrimSpace(want.body), strings.Join(sample, "\n")))
			}
			continue
		}
		if r.resp.status == 0 && r.req.abortOK {
			s.Probe("request-dropped-by-contained-panic")
		}
		if r.resp.status >= 500 {
			lg := simLogTail()
			if len(lg) > 600 {
				lg = lg[len(lg)-600:]
			}
			s.Fail("oracle", "request-failed:"+c08route(r.req.path), fmt.Sprintf("%s answered %d %s\n%s\n%s", k, r.resp.status, strings.TrimSpace(r.resp.body), lg, strings.Join(sample, "\n")))
		}
	}
	if providers {
		c08providerInvariants(s, results, sample)
		c08finalState(s, sv, results, sample)
	}
}

// c08finalState: once every request has been answered and background blocks have finished,
// (a) a key written by a background block holds the value of the request that started the block
// (a block keeps the variables of its own request, whatever requests came after), and
// (b) an acknowledged write that nothing overlapped or followed is still there: the last plain
// set of a key, when no other write, delete or expiring set of that key overlaps or follows it.
func c08finalState(s *sim.Sim, sv *simServer, results []c08result, sample []string) {
	hist := strings.Join(sample, "\n")
	get := func(k string) string {
		r := sv.do(simReq{path: "/r/get/" + k, remote: "10.2.9.9:9"})
		var body map[string]interface{}
		if json.Unmarshal([]byte(r.body), &body) != nil {
			return "?"
		}
		if body["value"] == nil {
			return "<nil>"
		}
		return fmt.Sprint(body["value"])
	}
	started := map[string]bool{}
	for _, r := range results {
		if strings.HasPrefix(r.req.path, "/bg/") && r.resp.status == 200 {
			started[strings.TrimPrefix(r.req.path, "/bg/")] = true
		}
	}
	for _, who := range []string{"alice", "bob", "carol", "dave"} {
		v := get("bg-" + who)
		if started[who] {
			s.Probe("background-block-checked")
			if v != who {
				s.Fail("oracle", "background-block-wrong-request", fmt.Sprintf("the block started by GET /bg/%s stored %q under bg-%s: it must keep its own request's variables\n%s", who, v, who, hist))
			}
		} else if v != "<nil>" {
			s.Fail("oracle", "background-block-wrong-request", fmt.Sprintf("nobody requested /bg/%s but bg-%s holds %q\n%s", who, who, v, hist))
		}
	}
	for _, k := range []string{"k0", "k1"} {
		var last *c08result
		clean := true
		for i := range results {
			r := &results[i]
			if !strings.HasPrefix(r.req.path, "/r/set/"+k+"/") && !strings.HasPrefix(r.req.path, "/r/setex/"+k+"/") {
				continue
			}
			if last == nil || r.call > last.call {
				last = r
			}
		}
		if last == nil || !strings.HasPrefix(last.req.path, "/r/set/") {
			continue
		}
		for i := range results {
			r := &results[i]
			if r != last && (strings.HasPrefix(r.req.path, "/r/set/"+k+"/") || strings.HasPrefix(r.req.path, "/r/setex/"+k+"/")) && r.ret > last.call {
				clean = false // another write overlaps the last one
			}
		}
		if !clean {
			continue
		}
		want := strings.TrimPrefix(last.req.path, "/r/set/"+k+"/")
		s.Probe("last-write-checked")
		if v := get(k); v != want {
			s.Fail("oracle", "acknowledged-write-lost:redis", fmt.Sprintf("the last write of %s (%s, acknowledged, overlapped by no other write) is not what the key holds at the end: %q\n%s", k, last.req.path, v, hist))
		}
	}
}

func c08route(path string) string {
	parts := strings.Split(strings.Trim(strings.SplitN(path, "?", 2)[0], "/"), "/")
	if len(parts) >= 2 {
		return parts[0] + "/" + parts[1]
	}
	return parts[0]
}

// c08providerInvariants: atomicity facts that hold in every sequential order of the requests.
func c08providerInvariants(s *sim.Sim, results []c08result, sample []string) {
	hist := strings.Join(sample, "\n")
	incr := map[string][]int{}
	ids := map[string]bool{}
	for _, r := range results {
		var body map[string]interface{}
		if json.Unmarshal([]byte(r.resp.body), &body) != nil {
			continue
		}
		switch body["route"] {
		case "a-touch":
			// the request incremented the counter of its own copy of a record nobody ever updates
			if v, ok := body["views"].(float64); ok && v != 1 {
				s.Fail("oracle", "provider-record-shared:touch", fmt.Sprintf("a request that adds 1 to the view counter of its own copy of a stored record (never written back) got %v: copies handed out by the store share nested values\n%s", v, hist))
			}
		case "a-peek":
			if a, ok := body["article"].(map[string]interface{}); ok {
				if m, ok := a["meta"].(map[string]interface{}); ok {
					if v, ok := m["views"].(float64); ok && v != 0 {
						s.Fail("oracle", "provider-record-shared:peek", fmt.Sprintf("a stored record that no request ever updates shows views=%v: a request's change to its own copy reached the store\n%s", v, hist))
					}
				}
			}
		case "r-incr":
			if v, ok := body["value"].(float64); ok {
				k := fmt.Sprint(body["key"])
				incr[k] = append(incr[k], int(v))
			}
		case "db-create":
			id := fmt.Sprint(body["id"])
			if ids[id] {
				// (ids are len+1, so a delete in between legitimately re-issues an id: only flag
				// duplicates when no delete ran)
				deleted := false
				for _, o := range results {
					if o.req.method == "DELETE" {
						deleted = true
					}
				}
				if !deleted {
					s.Fail("oracle", "provider-atomicity:db-create-duplicate-id", fmt.Sprintf("two create requests were given id %s\n%s", id, hist))
				}
			}
			ids[id] = true
		case "m-find":
			// a batch inserted by one InsertMany is visible entirely or not at all
			per := map[string]int{}
			if docs, ok := body["docs"].([]interface{}); ok {
				for _, d := range docs {
					if m, ok := d.(map[string]interface{}); ok {
						if b := fmt.Sprint(m["batch"]); strings.HasPrefix(b, "b") {
							per[b]++
						}
					}
				}
			}
			for b, n := range per {
				s.Probe("mongo-batch-observed")
				if n != 3 {
					s.Fail("oracle", "provider-atomicity:mongo-insertmany", fmt.Sprintf("a Find observed %d of the 3 documents of batch %s: InsertMany did not take effect atomically\n%s", n, b, hist))
				}
			}
		}
	}
	for k, vs := range incr {
		sort.Ints(vs)
		for i, v := range vs {
			if v != i+1 {
				s.Fail("oracle", "provider-atomicity:redis-incr", fmt.Sprintf("%d incr requests on %s returned %v: not the values 1..%d\n%s", len(vs), k, vs, len(vs), hist))
			}
		}
	}
}

// ---------------------------------------------------------------------------------------------
// (P) providers driven directly

type c08op struct {
	Kind string
	A, B string
	N    int
}

func (o c08op) String() string { return fmt.Sprintf("%s(%s,%s,%d)", o.Kind, o.A, o.B, o.N) }

type c08prov3 struct {
	db    *database.MockDatabase
	rd    *redis.MockHandler
	mg    *mongodb.MockHandler
	which int
	// scribble: after an operation's result has been rendered, the caller changes what it was
	// handed (and what it handed in), nested values included, the way a request changes its own
	// copy of a record. Nothing of that may reach the store: only operations carry effects.
	// Off in the model's replays.
	scribble bool
}

func c08scribble(v interface{}) {
	switch x := v.(type) {
	case map[string]interface{}:
		for _, inner := range x {
			c08scribble(inner)
		}
		if _, nested := x["n"]; nested {
			x["n"] = 999
			x["scribbled"] = true
		}
	case []map[string]interface{}:
		for _, e := range x {
			c08scribble(e)
		}
	case []interface{}:
		for i, e := range x {
			c08scribble(e)
			if _, isStr := e.(string); isStr {
				x[i] = "scribbled"
			}
		}
	}
}

func (pv *c08prov3) done(vals ...interface{}) {
	if pv.scribble {
		for _, v := range vals {
			c08scribble(v)
		}
	}
}

func c08newProv(which int) *c08prov3 {
	return &c08prov3{db: database.NewMockDatabase(), rd: redis.NewMockHandler(), mg: mongodb.NewMockHandler(), which: which}
}

func c08str(v interface{}) string {
	b, err := json.Marshal(v)
	if err != nil {
		return fmt.Sprintf("%v", v)
	}
	return string(b)
}

// apply runs one provider operation and returns its result rendered immediately.
func (pv *c08prov3) apply(o c08op) string {
	switch o.Kind {
	case "db.create":
		in := map[string]interface{}{"name": o.A, "meta": map[string]interface{}{"n": 0}, "tags": []interface{}{"t-" + o.A}}
		r := pv.db.Table("users").Create(in)
		out := c08str(r)
		pv.done(r, in)
		return out
	case "db.get":
		r := pv.db.Table("users").Get(o.N)
		out := c08str(r)
		pv.done(r)
		return out
	case "db.update":
		in := map[string]interface{}{"name": o.A, "extra": map[string]interface{}{"n": 1}}
		r := pv.db.Table("users").Update(o.N, in)
		out := c08str(r)
		pv.done(r, in)
		return out
	case "db.delete":
		return c08str(pv.db.Table("users").Delete(o.N))
	case "db.all":
		r := pv.db.Table("users").All()
		out := c08str(r)
		pv.done(r)
		return out
	case "db.filter":
		r := pv.db.Table("users").Filter("name", o.A)
		out := c08str(r)
		pv.done(r)
		return out
	case "db.length":
		return c08str(pv.db.Table("users").Length())
	case "db.nextid":
		return c08str(pv.db.Table("users").NextId())
	case "r.get":
		v, err := pv.rd.Get(o.A)
		return c08str([]interface{}{v, err != nil})
	case "r.set":
		v, err := pv.rd.Set(o.A, o.B)
		return c08str([]interface{}{v, err != nil})
	case "r.incr":
		v, err := pv.rd.Incr(o.A)
		return c08str([]interface{}{v, err != nil})
	case "r.decr":
		v, err := pv.rd.Decr(o.A)
		return c08str([]interface{}{v, err != nil})
	case "r.del":
		v, err := pv.rd.Del(o.A)
		return c08str([]interface{}{v, err != nil})
	case "r.exists":
		v, err := pv.rd.Exists(o.A)
		return c08str([]interface{}{v, err != nil})
	case "r.hset":
		v, err := pv.rd.HSet(o.A, "f", o.B)
		return c08str([]interface{}{v, err != nil})
	case "r.hgetall":
		v, err := pv.rd.HGetAll(o.A)
		out := c08str([]interface{}{v, err != nil})
		pv.done(map[string]interface{}{"n": 0, "h": v})
		return out
	case "r.lpush":
		v, err := pv.rd.LPush(o.A, o.B)
		return c08str([]interface{}{v, err != nil})
	case "r.rpop":
		v, err := pv.rd.RPop(o.A)
		return c08str([]interface{}{v, err != nil})
	case "r.llen":
		v, err := pv.rd.LLen(o.A)
		return c08str([]interface{}{v, err != nil})
	case "r.lrange":
		v, err := pv.rd.LRange(o.A, 0, -1)
		out := c08str([]interface{}{v, err != nil})
		pv.done(v)
		return out
	case "r.sadd":
		v, err := pv.rd.SAdd(o.A, o.B)
		return c08str([]interface{}{v, err != nil})
	case "r.smembers":
		v, _ := pv.rd.SMembers(o.A)
		var ss []string
		for _, x := range v {
			ss = append(ss, fmt.Sprint(x))
		}
		sort.Strings(ss) // a set has no order
		return c08str(ss)
	case "m.insert":
		in := map[string]interface{}{"batch": o.A, "part": 0, "meta": map[string]interface{}{"n": 0}, "tags": []interface{}{"t-" + o.A}}
		v, err := pv.mg.Collection("docs").InsertOne(in)
		out := c08str([]interface{}{v, err != nil})
		pv.done(in)
		return out
	case "m.insertmany":
		in := []map[string]interface{}{{"batch": o.A, "part": 1, "meta": map[string]interface{}{"n": 0}}, {"batch": o.A, "part": 2}}
		v, err := pv.mg.Collection("docs").InsertMany(in)
		out := c08str([]interface{}{v, err != nil})
		pv.done(in)
		return out
	case "m.find":
		v, err := pv.mg.Collection("docs").Find(map[string]interface{}{})
		out := c08str([]interface{}{v, err != nil})
		pv.done(v)
		return out
	case "m.findone":
		v, err := pv.mg.Collection("docs").FindOne(map[string]interface{}{"batch": o.A})
		out := c08str([]interface{}{v, err != nil})
		pv.done(v)
		return out
	case "m.update":
		in := map[string]interface{}{"seen": o.B, "extra": map[string]interface{}{"n": 1}}
		v, err := pv.mg.Collection("docs").UpdateOne(map[string]interface{}{"batch": o.A}, in)
		out := c08str([]interface{}{v, err != nil})
		pv.done(in)
		return out
	case "m.updatemany":
		v, err := pv.mg.Collection("docs").UpdateMany(map[string]interface{}{"batch": o.A}, map[string]interface{}{"seen": o.B})
		return c08str([]interface{}{v, err != nil})
	case "m.delete":
		v, err := pv.mg.Collection("docs").DeleteOne(map[string]interface{}{"batch": o.A})
		return c08str([]interface{}{v, err != nil})
	case "m.count":
		v, err := pv.mg.Collection("docs").CountDocuments(map[string]interface{}{})
		return c08str([]interface{}{v, err != nil})
	}
	return "?"
}

func c08genOp(s *sim.Sim, which int, n *int) c08op {
	*n++
	u := fmt.Sprintf("u%d", *n)
	switch which {
	case 0:
		k := []string{"db.create", "db.create", "db.get", "db.update", "db.delete", "db.all", "db.filter", "db.length", "db.nextid", "db.all", "db.delete", "db.all"}[s.Choose(sim.SWork, 12)]
		o := c08op{Kind: k, A: u, N: 1 + s.Choose(sim.SWork, 6)}
		if k == "db.filter" {
			o.A = fmt.Sprintf("u%d", 1+s.Choose(sim.SWork, 4))
		}
		return o
	case 1:
		k := []string{"r.get", "r.set", "r.incr", "r.incr", "r.decr", "r.del", "r.exists", "r.hset", "r.hgetall", "r.lpush", "r.rpop", "r.llen", "r.lrange", "r.sadd", "r.smembers"}[s.Choose(sim.SWork, 15)]
		key := []string{"k1", "k2"}[s.Choose(sim.SWork, 2)]
		switch {
		case strings.HasPrefix(k, "r.h"):
			key = "h1"
		case strings.HasPrefix(k, "r.l") || k == "r.rpop":
			key = "l1"
		case strings.HasPrefix(k, "r.s") && k != "r.set":
			key = "s1"
		case k == "r.incr" || k == "r.decr":
			key = "c1"
		}
		return c08op{Kind: k, A: key, B: u}
	default:
		k := []string{"m.insert", "m.insertmany", "m.insertmany", "m.find", "m.find", "m.findone", "m.update", "m.updatemany", "m.delete", "m.count"}[s.Choose(sim.SWork, 10)]
		o := c08op{Kind: k, A: u, B: u}
		if k != "m.insert" && k != "m.insertmany" {
			o.A = fmt.Sprintf("u%d", 1+s.Choose(sim.SWork, 5))
		}
		return o
	}
}

func c08Providers(s *sim.Sim, p *sim.Params) {
	which := s.Choose(sim.SWork, 3)
	pv := c08newProv(which)
	pv.scribble = s.Choose(sim.SWork, 2) == 0
	if pv.scribble {
		s.Probe("callers-change-what-they-were-handed")
	}
	var sample []string
	defer func() { s.Note("sample", sample) }()
	sample = append(sample, fmt.Sprintf("mode=providers provider=%s", []string{"mock database", "mock redis", "mock mongodb"}[which]))
	n := 0
	// a sequential prefix so that the concurrent phase starts from a populated store
	var prefix []c08op
	npre := s.Choose(sim.SWork, 4)
	if which == 0 && s.Choose(sim.SWork, 2) == 0 {
		// a table with a few rows to list, update and delete
		for i := 3 + s.Choose(sim.SWork, 4); i > 0; i-- {
			n++
			o := c08op{Kind: "db.create", A: fmt.Sprintf("u%d", n)}
			prefix = append(prefix, o)
			sample = append(sample, fmt.Sprintf("pre %v -> %s", o, pv.apply(o)))
		}
	}
	for i := npre; i > 0; i-- {
		o := c08genOp(s, which, &n)
		prefix = append(prefix, o)
		r := pv.apply(o)
		sample = append(sample, fmt.Sprintf("pre %v -> %s", o, r))
	}
	type rec struct {
		task      int
		op        c08op
		out       string
		call, ret uint64
	}
	var hist []rec
	ntasks := 2 + s.Choose(sim.SWork, 3)
	var hs []*sim.Handle
	for ti := 0; ti < ntasks; ti++ {
		m := 1 + s.Choose(sim.SWork, 4)
		ops := make([]c08op, m)
		for i := range ops {
			ops[i] = c08genOp(s, which, &n)
		}
		ti := ti
		hs = append(hs, s.Spawn(fmt.Sprintf("caller#%d", ti), func() {
			for _, o := range ops {
				s.Op(o.String())
				call := s.Stamp()
				out := pv.apply(o)
				hist = append(hist, rec{ti, o, out, call, s.Stamp()})
			}
		}))
	}
	if !s.WaitTimeout(time.Minute, hs...) {
		s.Fail("deadlock", s.BlockedSitesOf(hs...), "provider operations did not return: "+s.BlockedSummary())
	}
	sort.Slice(hist, func(i, j int) bool { return hist[i].call < hist[j].call })
	var ops []porcupine.Operation
	for _, h := range hist {
		sample = append(sample, fmt.Sprintf("c%d [%d,%d] %v -> %s", h.task, h.call, h.ret, h.op, h.out))
		ops = append(ops, porcupine.Operation{ClientId: h.task, Input: h.op, Output: h.out, Call: int64(h.call), Return: int64(h.ret)})
	}
	// model: the provider's own sequential behaviour — replay the candidate order on a fresh mock
	// (outside the simulation, where woven code degrades to plain operations)
	model := porcupine.Model{
		Init: func() interface{} { return "" },
		Step: func(state, in, out interface{}) (bool, interface{}) {
			fresh := c08newProv(which)
			for _, o := range prefix {
				fresh.apply(o)
			}
			var seq []c08op
			if st := state.(string); st != "" {
				json.Unmarshal([]byte(st), &seq)
			}
			for _, o := range seq {
				fresh.apply(o)
			}
			got := fresh.apply(in.(c08op))
			if got != out.(string) {
				return false, state
			}
			seq = append(seq, in.(c08op))
			b, _ := json.Marshal(seq)
			return true, string(b)
		},
		DescribeOperation: func(in, out interface{}) string { return fmt.Sprintf("%v -> %v", in, out) },
	}
	kinds := map[string]bool{}
	for _, h := range hist {
		kinds[h.op.Kind] = true
	}
	hcopy := append([]string(nil), sample...)
	s.AfterRun(func() *sim.Violation {
		switch porcupine.CheckOperationsTimeout(model, ops, 20*time.Second) {
		case porcupine.Illegal:
			var ks []string
			for k := range kinds {
				ks = append(ks, k)
			}
			sort.Strings(ks)
			return &sim.Violation{Class: "oracle", Site: "provider-not-linearizable:" + []string{"database", "redis", "mongodb"}[which], Msg: "no sequential order of the provider operations explains their results (ops: " + strings.Join(ks, ",") + "):\n  " + strings.Join(hcopy, "\n  ")}
		case porcupine.Unknown:
			s.Probe("porcupine-inconclusive")
		}
		return nil
	})
	s.Probe("provider-history-checked")
}
