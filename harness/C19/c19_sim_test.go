package main

// glyphsim harness for property C19 — "a failed reload never takes the dev server down".
// (A) `glyph dev`: the real hotReloadManager (startServer / startDevServerInternal /
// watchForChanges with its debounce / reload) over a simulated watcher and port table;
// (B) the library hotreload.ReloadManager with its polling watcher over real files.
// Injected into cmd/glyph at check time; never committed to /repo.

import (
	"context"
	"fmt"
	"io"
	"net/http"
	"net/http/httptest"
	"os"
	"path/filepath"
	"sort"
	"strings"
	"testing"
	"time"

	fsnotify "github.com/glyphlang/glyph/pkg/zzsimrt/simfsn"
	"github.com/glyphlang/glyph/pkg/compiler"
	"github.com/glyphlang/glyph/pkg/hotreload"
	sim "github.com/glyphlang/glyph/pkg/zzsimrt"
)

func TestSim(t *testing.T) {
	simQuiet()
	sim.WorkerMain(t, map[string]sim.HarnessFunc{"C19": c19Run})
}

func c19Run(s *sim.Sim, p *sim.Params) {
	s.SetLimits(600_000, 0)
	mode := s.Choose(sim.SWork, 3)
	if k := p.Knob("mode", -1); k >= 0 {
		mode = k
	}
	if mode < 2 {
		c19Dev(s, p)
	} else {
		c19Library(s, p)
	}
}

// c19wait sleeps d in small hops: an injected clock jump (stalled process) then costs at most
// one hop, and the code under test still gets to run between hops.
func c19wait(s *sim.Sim, d time.Duration) {
	hops := 1
	if d >= time.Second {
		hops = 10
	}
	for i := 0; i < hops; i++ {
		s.Sleep(d / time.Duration(hops))
	}
}

// c19mtime: the harness stamps every save itself, so that modification times are part of the
// seeded history instead of depending on how fast the host executes a run: ordinary saves move
// forward in time; a restored backup (mv main.glyph.bak main.glyph, cp -p, rsync -a, an archive
// extract) carries a time older than everything before it, or exactly the previous one.
type c19clock struct {
	base time.Time
	n    int
	last time.Time
}

func (c *c19clock) stamp(file string, how string) {
	c.n++
	t := c.base.Add(time.Duration(c.n) * 2 * time.Second)
	switch how {
	case "older":
		t = c.base.Add(-time.Duration(c.n) * 10 * time.Minute)
	case "same":
		if !c.last.IsZero() {
			t = c.last
		}
	}
	c.last = t
	os.Chtimes(file, t, t)
}

type c19edit struct {
	kind    string // valid | parse-error | semantic-error | empty | deleted | recreated
	mtime   string // "" newer than every earlier save | older | same
	version int
	content string
	torn    bool
	events  []string // event ops to emit after the (last) write: write create chmod dup
	wait    time.Duration
}

// c19types: the module's type definitions; the typed route validates request bodies against them
const c19types = ": Item {\n  name: str!\n  qty: int!\n}\n\n"

// in a version that does not load the definitions differ too (a required field more, another type)
const c19typesBroken = ": Item {\n  name: str!\n  qty: str!\n  sku: str!\n}\n\n"

func c19typed(v int) string {
	return fmt.Sprintf("@ POST /t {\n  < input: Item\n  > {version: %d, name: input.name, twice: input.qty * 2}\n}\n\n", v)
}

// c19interp: the program of this run injects a provider, so it runs on the interpreter, and its
// routes use a module-level constant (looked up when a request is served)
var c19interp bool

func c19valid(v int) string {
	if c19interp {
		return c19types + fmt.Sprintf("const BASE = %d\n\n@ GET /v {\n  %% db: Database\n  > {version: BASE, doubled: BASE * 2, rows: db.items.length()}\n}\n\n@ GET /other {\n  > {ok: true}\n}\n\n", v) + c19typed(v)
	}
	return c19types + fmt.Sprintf("@ GET /v {\n  $ base = %d\n  > {version: base, doubled: base * 2}\n}\n\n@ GET /other {\n  > {ok: true}\n}\n\n", v) + c19typed(v)
}

func c19content(kind string, v int) string {
	switch kind {
	case "valid", "recreated":
		return c19valid(v)
	case "parse-error":
		return c19typesBroken + c19typed(v) + fmt.Sprintf("@ GET /v {\n  $ base = %d\n  > {version: base, doubled: base * \n", v)
	case "load-error":
		// parses, and every definition before the last loads; the last constant does not
		return c19valid(v) + "const RETRIES: int = \"three\"\n"
	case "semantic-error":
		if v%3 == 0 {
			// every route compiles, but two WebSocket routes claim one path
			return c19valid(v) + "@ ws /chat {\n  on connect {\n    ws.join(\"lobby\")\n  }\n}\n\n@ ws /chat {\n  on message {\n    ws.broadcast(input)\n  }\n}\n"
		}
		return c19typesBroken + c19typed(v) + fmt.Sprintf("@ GET /v {\n  $ base = %d\n  $ base = %d\n  > {version: base}\n}\n", v, v+1)
	case "empty":
		return ""
	}
	return ""
}

func c19genEdits(s *sim.Sim, n int) []c19edit {
	var out []c19edit
	version := 1
	lastValid := c19valid(1)
	for i := 0; i < n; i++ {
		e := c19edit{}
		if s.Choose(sim.SWork, 8) == 0 {
			// the file goes back, byte for byte, to the last valid content (undo in the editor)
			version++
			e = c19edit{kind: "revert", version: version, content: lastValid, events: []string{"write"}}
			if s.Choose(sim.SWork, 3) == 0 {
				e.mtime = "older"
			}
			e.wait = []time.Duration{0, 150 * time.Millisecond, time.Second, 3 * time.Second}[s.Choose(sim.SWork, 4)]
			out = append(out, e)
			continue
		}
		switch r := s.Choose(sim.SWork, 12); {
		case r < 5:
			e.kind = "valid"
		case r < 7:
			e.kind = "parse-error"
		case r < 9:
			e.kind = "semantic-error"
			if c19interp && s.Choose(sim.SWork, 2) == 0 {
				e.kind = "load-error"
			}
		case r < 10:
			e.kind = "empty"
		case r < 11:
			if s.Choose(sim.SWork, 2) == 0 {
				e.kind = "unreadable" // the path exists but cannot be read as a file
			} else {
				e.kind = "deleted"
			}
		default:
			e.kind = "recreated"
		}
		version++
		e.version = version
		e.content = c19content(e.kind, version)
		if e.kind == "valid" || e.kind == "recreated" {
			lastValid = e.content
		}
		e.torn = e.kind != "deleted" && e.kind != "unreadable" && len(e.content) > 10 && s.Choose(sim.SWork, 4) == 0
		switch s.Choose(sim.SWork, 7) {
		case 6:
			e.events = []string{"rename-save"} // editors that write a temp file and rename it over the target
		case 0:
			e.events = []string{"write", "write"}
		case 1:
			e.events = []string{"chmod", "write"}
		case 2:
			e.events = []string{"create"}
		case 3:
			e.events = []string{"write", "chmod"}
		default:
			e.events = []string{"write"}
		}
		if s.Choose(sim.SWork, 8) == 0 {
			e.events = append([]string{"overflow"}, e.events...)
		}
		e.wait = []time.Duration{0, 10 * time.Millisecond, 60 * time.Millisecond, 150 * time.Millisecond, time.Second, 3 * time.Second}[s.Choose(sim.SWork, 6)]
		if (e.kind == "valid" || e.kind == "recreated") && !e.torn && s.Choose(sim.SWork, 5) == 0 {
			e.mtime = []string{"older", "same"}[s.Choose(sim.SWork, 2)]
		}
		out = append(out, e)
	}
	return out
}

// c19fresh: what a fresh start of the given content answers on /v (nil if it does not load).
// It is loaded the way the dev server loads a file (buildDevServer: read, parse, setupRoutes, mount
// on a mux), on a manager of its own that never listens; a content whose loading panics does not load.
func c19fresh(content string, exists bool) *simResp {
	if !exists {
		return nil
	}
	dir, err := os.MkdirTemp("", "c19fresh-")
	if err != nil {
		return nil
	}
	defer os.RemoveAll(dir)
	file := filepath.Join(dir, "main.glyph")
	os.WriteFile(file, []byte(content), 0o644)
	var srv *http.Server
	func() {
		defer func() {
			if recover() != nil {
				srv = nil
			}
		}()
		m := &hotReloadManager{filePath: file, port: 18999, liveReloadConns: make(map[*liveReloadConn]bool)}
		if sv, _, err := m.buildDevServer(); err == nil {
			srv = sv
		}
	}()
	if srv == nil {
		return nil
	}
	do := func(method, path, body string) simResp {
		var rd io.Reader
		if body != "" {
			rd = strings.NewReader(body)
		}
		req := httptest.NewRequest(method, path, rd)
		req.RemoteAddr = "10.0.0.9:9"
		if body != "" {
			req.Header.Set("Content-Type", "application/json")
		}
		rec := httptest.NewRecorder()
		srv.Handler.ServeHTTP(rec, req)
		return simResp{status: rec.Code, body: rec.Body.String()}
	}
	r := do("GET", "/v", "")
	t := do("POST", "/t", c19typedBody)
	r.body = r.body + " | POST /t -> " + fmt.Sprint(t.status) + " " + t.body
	return &r
}

const c19typedBody = `{"name":"widget","qty":3}`

func c19Dev(s *sim.Sim, p *sim.Params) {
	dir, err := os.MkdirTemp("", "c19-")
	if err != nil {
		s.InfraFail(err.Error())
	}
	defer os.RemoveAll(dir)
	file := filepath.Join(dir, "main.glyph")
	if s.Choose(sim.SWork, 4) == 0 {
		// the project is opened through a symbolic link (a linked work directory, /tmp on macOS)
		os.Mkdir(filepath.Join(dir, "real"), 0o755)
		if os.Symlink(filepath.Join(dir, "real"), filepath.Join(dir, "link")) == nil {
			file = filepath.Join(dir, "link", "main.glyph")
			s.Probe("project-behind-symlink")
		}
	}
	var sample []string
	defer func() { s.Note("sample", sample) }()
	logf := func(f string, a ...any) {
		if len(sample) < 80 {
			sample = append(sample, fmt.Sprintf("[t=%v] ", s.Now())+fmt.Sprintf(f, a...))
		}
	}
	c19interp = s.Choose(sim.SWork, 3) == 0
	defer func() { c19interp = false }()
	if c19interp {
		s.Probe("interpreter-mode-program")
	}
	port := 18080
	addr := listenAddr(port)
	// Expected answers come from fresh pipelines. They are computed before the dev server
	// exists: setupRoutes writes package-level state, and `glyph dev` runs one server per process.
	edits := c19genEdits(s, 1+s.Choose(sim.SWork, 12))
	fresh := make([]*simResp, len(edits))
	freshTorn := make([]*simResp, len(edits))
	cuts := make([]int, len(edits))
	for i, e := range edits {
		fresh[i] = c19fresh(e.content, e.kind != "deleted" && e.kind != "unreadable")
		if e.torn {
			cuts[i] = 1 + s.Choose(sim.SFault, len(e.content)-1)
			freshTorn[i] = c19fresh(e.content[:cuts[i]], true)
		}
	}
	final := 1000 + len(edits)
	freshFinal := c19fresh(c19valid(final), true)
	fresh1 := c19fresh(c19valid(1), true)
	clk := &c19clock{base: time.Date(2020, 1, 1, 12, 0, 0, 0, time.UTC)}
	put := func(content, how string) {
		os.WriteFile(file, []byte(content), 0o644)
		clk.stamp(file, how)
	}
	put(c19valid(1), "")
	m := &hotReloadManager{filePath: file, port: port, liveReloadConns: make(map[*liveReloadConn]bool)}
	if err := m.startServer(); err != nil {
		s.InfraFail("C19: initial startServer failed: " + err.Error())
	}
	sim.Go("watchForChanges", m.watchForChanges)
	s.Quiesce(0)
	if fsnotify.Watchers(file) == 0 {
		s.InfraFail("C19: the dev server did not register a watcher for " + file)
	}
	logf("mode=dev started with version 1")
	probe := func() (int, string, bool) {
		req := httptest.NewRequest("GET", "/v", nil)
		req.RemoteAddr = "10.0.0.9:9"
		st, body, refused := s.HTTPDo(addr, req)
		if refused {
			return st, body, true
		}
		// and a typed request, validated against the module's type definitions
		treq := httptest.NewRequest("POST", "/t", strings.NewReader(c19typedBody))
		treq.Header.Set("Content-Type", "application/json")
		treq.RemoteAddr = "10.0.0.9:9"
		tst, tbody, trefused := s.HTTPDo(addr, treq)
		if trefused {
			return st, body, true
		}
		return st, body + " | POST /t -> " + fmt.Sprint(tst) + " " + tbody, false
	}
	// Every content that loads in a fresh pipeline, in the order it was put on disk. A version
	// that was on disk only briefly may legitimately never have been loaded (the debounce
	// coalesces a burst of saves and only the last content is read), so: if the content on disk
	// loads, the server must answer exactly like a fresh start of it; otherwise it must answer
	// like one of the earlier loadable contents, and never go back behind a version it was
	// already seen serving.
	type goodv struct {
		resp *simResp
		desc string
	}
	goods := []goodv{{fresh1, "version 1"}}
	confirmed := 0 // index into goods of the version last seen at a quiescent probe
	latestLoads := true
	emit := func(op string) {
		switch op {
		case "write":
			fsnotify.Emit(file, fsnotify.Write)
		case "create":
			fsnotify.Emit(file, fsnotify.Create)
		case "chmod":
			fsnotify.Emit(file, fsnotify.Chmod)
			s.Fault("spurious-event")
		case "overflow":
			// the kernel's event queue overflowed (a build tool touched thousands of files): the
			// watcher reports an error and goes on watching
			fsnotify.EmitError(file, fsnotify.ErrEventOverflow)
			s.Fault("watcher-error")
		case "rename-save":
			fsnotify.Emit(file+".tmp", fsnotify.Create)
			fsnotify.Emit(file+".tmp", fsnotify.Write)
			fsnotify.Emit(file+".tmp", fsnotify.Rename)
			fsnotify.Emit(file, fsnotify.Create)
		}
	}
	// "browser tab" runs: clients hold the live-reload event stream open (a request that stays in
	// flight for as long as the tab lives), so every reload has to replace a server that cannot
	// become idle within its shutdown grace period
	tabRun := s.Choose(sim.SWork, 3) == 0
	var tabs []context.CancelFunc
	openTab := func() {
		ctx, cancel := sim.WithCancel(context.Background())
		req := httptest.NewRequest("GET", "/__livereload", nil).WithContext(ctx)
		req.RemoteAddr = "10.0.0.7:7"
		tabs = append(tabs, cancel)
		// half of the tabs behave like a browser: on the reload notification the page reloads,
		// which drops this stream at once (a new tab connects to the new server)
		browser := s.Choose(sim.SWork, 2) == 0
		s.Spawn("tab", func() {
			s.HTTPDoWatch(addr, req, func(chunk []byte) {
				if browser && strings.Contains(string(chunk), "reload") {
					cancel()
				}
			})
		})
		s.Fault("request-in-flight-across-reload")
		logf("a browser tab opens the live-reload stream")
	}
	if tabRun {
		s.Probe("browser-tab-run")
		openTab()
	}
	// every edit not yet seen settled may still cost a reload (two when torn); with a tab open a
	// reload waits out the 2 s shutdown grace, and reloads run one at a time
	reloadsOwed := 0
	quietNeeded := func() time.Duration {
		if !tabRun {
			return time.Second
		}
		return time.Second + time.Duration(reloadsOwed)*2500*time.Millisecond
	}
	sinceLast := time.Duration(0)
	for i, e := range edits {
		exists := true
		if tabRun {
			switch s.Choose(sim.SWork, 6) {
			case 0:
				openTab()
			case 1:
				if len(tabs) > 0 {
					tabs[0]()
					tabs = tabs[1:]
					logf("a browser tab closes")
				}
			}
			if s.Choose(sim.SWork, 3) == 0 {
				e.wait = []time.Duration{4 * time.Second, 8 * time.Second, 20 * time.Second}[s.Choose(sim.SWork, 3)]
			}
		}
		reloadsOwed++
		if e.torn {
			reloadsOwed++
		}
		os.RemoveAll(file + ".d") // (nothing; keeps the directory variant below self-contained)
		if fi, err := os.Stat(file); err == nil && fi.IsDir() {
			os.RemoveAll(file)
		}
		switch e.kind {
		case "unreadable":
			os.Remove(file)
			os.Mkdir(file, 0o755)
			fsnotify.Emit(file, fsnotify.Create)
			exists = false
			s.Probe("edit-unreadable")
		case "deleted":
			os.Remove(file)
			fsnotify.Emit(file, fsnotify.Remove)
			exists = false
		case "recreated":
			os.Remove(file)
			fsnotify.Emit(file, fsnotify.Remove)
			put(e.content, e.mtime)
			fsnotify.Emit(file, fsnotify.Create)
		default:
			if e.torn {
				cut := cuts[i]
				put(e.content[:cut], "")
				emit("write")
				s.Fault("torn-save")
				if gap := []time.Duration{0, 20 * time.Millisecond, 300 * time.Millisecond}[s.Choose(sim.SFault, 3)]; gap > 0 {
					s.Sleep(gap)
					// the first chunk may itself have been loaded: judge it by the fresh pipeline too
					if gap > 250*time.Millisecond {
						if fr := freshTorn[i]; fr != nil {
							goods = append(goods, goodv{fr, fmt.Sprintf("torn prefix of edit %d", i)})
						}
					}
				}
			}
			put(e.content, e.mtime)
			if e.mtime != "" {
				s.Probe("edit-restores-older-file")
			}
			for _, op := range e.events {
				emit(op)
				if len(e.events) > 1 {
					s.Fault("duplicate-or-extra-event")
				}
			}
		}
		logf("edit %d: %s v%d torn=%v mtime=%q events=%v then wait %v", i, e.kind, e.version, e.torn, e.mtime, e.events, e.wait)
		_ = exists
		if fr := fresh[i]; fr != nil {
			goods = append(goods, goodv{fr, fmt.Sprintf("edit %d (%s v%d)", i, e.kind, e.version)})
			latestLoads = true
		} else {
			latestLoads = false
			s.Probe("edit-does-not-load")
		}
		if e.wait > 0 {
			c19wait(s, e.wait)
		}
		sinceLast = e.wait
		st, body, refused := probe()
		logf("probe after edit %d (+%v): refused=%v %d %s", i, e.wait, refused, st, strings.TrimSpace(body))
		if sinceLast >= quietNeeded() {
			reloadsOwed = 0
			// quiescent: every timer of the reload path (debounce, shutdown grace, start-up) is < 1 s
			s.Probe("quiescent-probe")
			if refused {
				s.Fail("oracle", "dev-server-down", fmt.Sprintf("after edit %d (%s) and %v of quiet the dev server refuses connections; it should still answer with the most recent version that loaded\n%s", i, e.kind, sinceLast, strings.Join(sample, "\n")))
			}
			top := goods[len(goods)-1]
			if latestLoads {
				if st != top.resp.status || body != top.resp.body {
					s.Fail("oracle", "dev-server-wrong-version", fmt.Sprintf("after edit %d (%s) and %v of quiet the dev server answers %d %s; the content on disk loads and a fresh start of it (%s) answers %d %s\n%s", i, e.kind, sinceLast, st, strings.TrimSpace(body), top.desc, top.resp.status, strings.TrimSpace(top.resp.body), strings.Join(sample, "\n")))
				}
				confirmed = len(goods) - 1
			} else {
				match := -1
				for gi := len(goods) - 1; gi >= 0; gi-- {
					if goods[gi].resp.status == st && goods[gi].resp.body == body {
						match = gi
						break
					}
				}
				if match < 0 {
					s.Fail("oracle", "dev-server-wrong-version", fmt.Sprintf("after edit %d (%s, does not load) the dev server answers %d %s, which is not the answer of any version that ever loaded\n%s", i, e.kind, st, strings.TrimSpace(body), strings.Join(sample, "\n")))
				}
				if match < confirmed {
					s.Fail("oracle", "dev-server-went-back", fmt.Sprintf("after edit %d (%s, does not load) the dev server answers like %s although it was already serving %s\n%s", i, e.kind, goods[match].desc, goods[confirmed].desc, strings.Join(sample, "\n")))
				}
				confirmed = match
			}
		}
	}
	// a later valid edit always takes effect
	if fi, err := os.Stat(file); err == nil && fi.IsDir() {
		os.RemoveAll(file)
	}
	if tabRun {
		c19wait(s, quietNeeded()) // reloads still queued behind shutdown grace periods
	}
	put(c19valid(final), "")
	fsnotify.Emit(file, fsnotify.Write)
	c19wait(s, 2*time.Second)
	if tabRun {
		c19wait(s, 3*time.Second)
	}
	want := freshFinal
	st, body, refused := probe()
	logf("final valid edit v%d: refused=%v %d %s", final, refused, st, strings.TrimSpace(body))
	if refused {
		s.Fail("oracle", "dev-server-down", fmt.Sprintf("after a final valid edit and ample quiet the dev server refuses connections\n%s", strings.Join(sample, "\n")))
	}
	if st != want.status || body != want.body {
		s.Fail("oracle", "valid-edit-ignored", fmt.Sprintf("after a final valid edit (version %d) and ample quiet the dev server answers %d %s instead of %d %s\n%s", final, st, strings.TrimSpace(body), want.status, strings.TrimSpace(want.body), strings.Join(sample, "\n")))
	}
	s.Probe("final-edit-took-effect")
}

// ---------------------------------------------------------------------------------------------
// (B) library ReloadManager

// c19compiler is the real parser+compiler behind CompilerInterface. In "slow" runs a compilation
// takes simulated time (the file is read first, as a compiler does), so that the next change can
// be detected while the previous one is still being compiled.
type c19compiler struct {
	s     *sim.Sim
	slow  bool
	stall *int // how many compilations may still stall (nil: none)
	pre   time.Duration // start-up latency before the file is read
}

func (c c19compiler) CompileFile(path string) ([]byte, error) {
	if c.pre > 0 {
		c.s.Sleep(c.pre) // the compiler takes a moment to start before it opens the file
	}
	src, err := os.ReadFile(path)
	if err != nil {
		return nil, err
	}
	if c.slow {
		d := []time.Duration{0, 50 * time.Millisecond, 300 * time.Millisecond, 900 * time.Millisecond}[c.s.Choose(sim.SFault, 4)]
		if c.stall != nil && *c.stall > 0 && c.s.Choose(sim.SFault, 4) == 0 {
			// a compilation that stalls for most of a minute (a cold disk, a huge import): at most
			// a few per run; the harness waits it out before it judges
			*c.stall--
			d = 45 * time.Second
			c.s.Fault("compile-stalls")
		}
		if d > 0 {
			c.s.Fault("slow-compile")
			c.s.Sleep(d)
		}
	}
	return c19compile(string(src))
}

func c19compile(src string) ([]byte, error) {
	mod, err := parseSource(src)
	if err != nil {
		return nil, err
	}
	out, err := compiler.NewCompilerWithOptLevel(compiler.OptBasic).Compile(mod)
	if err != nil {
		return nil, err
	}
	return out, nil
}

type c19server struct {
	s          *sim.Sim
	active     []byte
	state      map[string]interface{}
	reloads    int
	failReload bool
	bad        string
	lastRefused []byte // bytecode of the most recent Reload the server refused
	refusedWhile string        // what the file held at that moment
	onDisk       func() string // what the file holds now (harness side)
}

func (sv *c19server) Reload(bc []byte) error {
	sim.Yield("c19server.Reload")
	if sv.failReload {
		sv.failReload = false
		sv.lastRefused = bc
		if sv.onDisk != nil {
			sv.refusedWhile = sv.onDisk()
		}
		sv.s.Fault("reload-fails")
		return fmt.Errorf("injected reload failure")
	}
	sv.active = bc
	sv.state = map[string]interface{}{} // a restart loses in-memory state; the manager must restore it
	sv.reloads++
	return nil
}

func (sv *c19server) GetState() map[string]interface{} {
	cp := map[string]interface{}{}
	for k, v := range sv.state {
		cp[k] = v
	}
	return cp
}

func (sv *c19server) SetState(st map[string]interface{}) error {
	sv.state = st
	return nil
}

// c19LibraryMulti: a watched tree with two programs. The manager compiles the file that changed
// and hands the result to the server, so after a quiet period the server runs the compilation of
// the latest content of a file that was edited since the last quiet period (when it compiles), and
// keeps what it ran when nothing edited compiles.
func c19LibraryMulti(s *sim.Sim, p *sim.Params) {
	dir, err := os.MkdirTemp("", "c19multi-")
	if err != nil {
		s.InfraFail(err.Error())
	}
	defer os.RemoveAll(dir)
	files := []string{filepath.Join(dir, "main.glyph"), filepath.Join(dir, "other.glyph")}
	var sample []string
	defer func() { s.Note("sample", sample) }()
	logf := func(f string, a ...any) {
		if len(sample) < 80 {
			sample = append(sample, fmt.Sprintf("[t=%v] ", s.Now())+fmt.Sprintf(f, a...))
		}
	}
	content := []string{c19valid(1), c19valid(500)}
	for i, f := range files {
		os.WriteFile(f, []byte(content[i]), 0o644)
	}
	bc1, err := c19compile(content[0])
	if err != nil {
		s.InfraFail("C19: baseline compile: " + err.Error())
	}
	sv := &c19server{s: s, active: bc1, state: map[string]interface{}{"sessions": 3}}
	rm := hotreload.NewReloadManager([]string{dir}, c19compiler{s: s}, sv)
	ctx, cancel := sim.WithCancel(context.Background())
	defer cancel()
	if err := rm.Start(ctx); err != nil {
		s.InfraFail("C19: ReloadManager.Start: " + err.Error())
	}
	defer rm.Stop()
	logf("mode=library, two programs in the watched tree")
	s.Probe("library-two-file-run")
	edited := map[int]bool{}
	var written []string
	prevActive := string(bc1)
	version := 1
	nedits := 2 + s.Choose(sim.SWork, 8)
	for i := 0; i < nedits; i++ {
		fi := s.Choose(sim.SWork, 2)
		version++
		kind := []string{"valid", "valid", "valid", "parse-error", "semantic-error"}[s.Choose(sim.SWork, 5)]
		v := version
		if fi == 1 {
			v += 500
		}
		content[fi] = c19content(kind, v)
		os.WriteFile(files[fi], []byte(content[fi]), 0o644)
		edited[fi] = true
		written = append(written, content[fi])
		wait := []time.Duration{0, 300 * time.Millisecond, 2 * time.Second, 4 * time.Second}[s.Choose(sim.SWork, 4)]
		logf("edit %d: %s of %s (v%d) then wait %v", i, kind, filepath.Base(files[fi]), v, wait)
		if i == nedits-1 && wait < 2*time.Second {
			wait = 3 * time.Second
		}
		if wait > 0 {
			c19wait(s, wait)
		}
		if wait < 2*time.Second {
			continue
		}
		// quiescent: judge
		s.Probe("quiescent-check")
		// if the latest content of every edited file compiles, the server runs one of those;
		// otherwise it may also still run what it ran before, or an intermediate content that was
		// on disk for a while since then and compiled (a poll may have caught it)
		allowed := map[string]string{}
		allCompile := true
		for f := range edited {
			if bc, err := c19compile(content[f]); err == nil {
				allowed[string(bc)] = filepath.Base(files[f])
			} else {
				allCompile = false
			}
		}
		if !allCompile {
			allowed[prevActive] = "what it ran before"
			for _, c := range written {
				if bc, err := c19compile(c); err == nil {
					allowed[string(bc)] = "an intermediate content"
				}
			}
		}
		if _, ok := allowed[string(sv.active)]; !ok {
			var names []string
			for f := range edited {
				names = append(names, filepath.Base(files[f]))
			}
			sort.Strings(names)
			s.Fail("oracle", "library-server-stale:two-files", fmt.Sprintf("after edit %d and %v of quiet the server does not run the compilation of the latest content of any file edited since the last quiet period (%v); reloads=%d\n%s", i, wait, names, sv.reloads, strings.Join(sample, "\n")))
		}
		prevActive = string(sv.active)
		edited = map[int]bool{}
		written = nil
	}
}

func c19Library(s *sim.Sim, p *sim.Params) {
	if s.Choose(sim.SWork, 4) == 0 {
		c19LibraryMulti(s, p)
		return
	}
	dir, err := os.MkdirTemp("", "c19lib-")
	if err != nil {
		s.InfraFail(err.Error())
	}
	defer os.RemoveAll(dir)
	file := filepath.Join(dir, "main.glyph")
	var sample []string
	defer func() { s.Note("sample", sample) }()
	logf := func(f string, a ...any) {
		if len(sample) < 80 {
			sample = append(sample, fmt.Sprintf("[t=%v] ", s.Now())+fmt.Sprintf(f, a...))
		}
	}
	clk := &c19clock{base: time.Date(2020, 1, 1, 12, 0, 0, 0, time.UTC)}
	onDisk := "" // what the file holds at this instant ("\x00gone": nothing readable)
	put := func(content, how string) {
		os.WriteFile(file, []byte(content), 0o644)
		clk.stamp(file, how)
		onDisk = content
	}
	put(c19valid(1), "")
	bc1, err := c19compile(c19valid(1))
	if err != nil {
		s.InfraFail("C19: baseline compile: " + err.Error())
	}
	sv := &c19server{s: s, active: bc1, state: map[string]interface{}{"sessions": 3, "token": "abc"}}
	var events []hotreload.ReloadEvent
	slow := s.Choose(sim.SWork, 3) == 0
	if slow {
		s.Probe("slow-compile-run")
	}
	stalls := 0
	if slow && s.Choose(sim.SWork, 3) == 0 {
		stalls = 2
		s.Probe("stalling-compile-run")
	}
	stallBudget := stalls
	pre := time.Duration(0)
	if slow && s.Choose(sim.SWork, 2) == 0 {
		pre = 20 * time.Millisecond
	}
	rm := hotreload.NewReloadManager([]string{dir}, c19compiler{s: s, slow: slow, stall: &stalls, pre: pre}, sv, hotreload.WithOnReload(func(e hotreload.ReloadEvent) { events = append(events, e) }))
	ctx, cancel := sim.WithCancel(context.Background())
	defer cancel()
	if err := rm.Start(ctx); err != nil {
		s.InfraFail("C19: ReloadManager.Start: " + err.Error())
	}
	defer rm.Stop()
	logf("mode=library started")
	// as in dev mode: the polling watcher only ever sees what is on disk at a poll, so a content
	// that was overwritten before the next poll may never have been compiled
	goods := [][]byte{bc1}
	confirmed := 0
	latestCompiles := true
	sv.onDisk = func() string { return onDisk }
	// after a Reload that failed on the server side the manager does not retry by itself; the
	// version stays behind until the file content changes again (identical bytes are no edit)
	failedFor := "\x00none"
	edits := c19genEdits(s, 1+s.Choose(sim.SWork, 10))
	pending := 0
	for i, e := range edits {
		content := e.content
		if fi, err := os.Stat(file); err == nil && fi.IsDir() {
			os.RemoveAll(file)
		}
		if e.kind == "valid" && onDisk != "\x00gone" && s.Choose(sim.SWork, 5) == 0 {
			if _, err := c19compile(onDisk); err == nil {
				// the developer saves the program that is on disk once more with another layout
				// (a comment, a blank line): the file changes, what it compiles to does not
				content = onDisk + "\n# saved again " + fmt.Sprint(i) + "\n"
				s.Probe("resaved-with-another-layout")
			}
		}
		blip := !slow && (e.kind == "valid" || e.kind == "recreated") && s.Choose(sim.SFault, 4) == 0
		typo := (!slow || (pre > 0 && stallBudget == 0)) && !blip && (e.kind == "valid" || e.kind == "recreated") && s.Choose(sim.SFault, 4) == 0
		switch {
		case typo:
			// the save lands just before a poll; at the very instant the debounce timer of that
			// poll fires the developer saves a typo (a content that does not compile) and undoes it
			// well before the next poll: whichever of the two contents the load attempt read,
			// the valid one is on disk from then on and has to end up running
			s.Fault("typo-saved-and-undone-as-debounce-fires")
			tick := 500 * time.Millisecond
			s.Sleep(tick - s.Now()%tick - 10*time.Millisecond)
			put(content, e.mtime)
			s.Sleep(210*time.Millisecond + pre/2) // (with a start-up latency: while the compiler is starting)
			put(c19content("parse-error", e.version), "")
			s.Sleep(60 * time.Millisecond)
			put(content, "")
		case blip:
			// the save lands just before a poll; the file is briefly absent when the debounce
			// timer of that poll fires (an editor replacing it, a sync tool), and is back with the
			// same content before the next poll
			s.Fault("file-absent-when-debounce-fires")
			tick := 500 * time.Millisecond
			s.Sleep(tick - s.Now()%tick - 10*time.Millisecond)
			put(content, e.mtime)
			s.Sleep(110 * time.Millisecond)
			os.Remove(file)
			onDisk = "\x00gone"
			s.Sleep(200 * time.Millisecond)
			put(content, "")
		case e.kind == "deleted":
			os.Remove(file)
		case e.kind == "unreadable":
			os.Remove(file)
			os.Mkdir(file, 0o755)
		default:
			put(content, e.mtime)
		}
		if e.kind == "deleted" || e.kind == "unreadable" {
			onDisk = "\x00gone"
		} else {
			onDisk = content
		}
		// an injected failure hits the next Reload call, which may belong to a later edit
		injected := sv.failReload
		if s.Choose(sim.SFault, 8) == 0 {
			injected = true
			sv.failReload = true
		}
		// waits are drawn around the poll interval (500 ms) and the debounce (200 ms)
		wait := []time.Duration{0, 100 * time.Millisecond, 499 * time.Millisecond, 501 * time.Millisecond, 700 * time.Millisecond, 2 * time.Second, 4 * time.Second}[s.Choose(sim.SWork, 7)]
		if slow && s.Choose(sim.SWork, 3) == 0 {
			wait = []time.Duration{6 * time.Second, 12 * time.Second}[s.Choose(sim.SWork, 2)]
		}
		// every edit not yet seen settled may still cost one (slow) compilation; the manager
		// compiles one change at a time
		pending++
		need := 2 * time.Second
		if slow {
			need += time.Duration(pending) * 900 * time.Millisecond
		}
		if stallBudget > 0 {
			// stalled compilations still running or queued: wait them out
			need += time.Duration(stallBudget) * 46 * time.Second
			if s.Choose(sim.SWork, 3) == 0 {
				wait = need + time.Second
			}
		}
		logf("edit %d: %s v%d mtime=%q then wait %v (failReload=%v)", i, e.kind, e.version, e.mtime, wait, injected)
		latestCompiles = false
		if e.kind != "deleted" && e.kind != "unreadable" {
			if bc, err := c19compile(content); err == nil {
				goods = append(goods, bc)
				latestCompiles = true
			} else {
				s.Probe("edit-does-not-compile")
			}
		}
		if wait > 0 {
			c19wait(s, wait)
		}
		if wait >= need {
			pending = 0
			s.Probe("quiescent-check")
			match := -1
			for gi := len(goods) - 1; gi >= 0; gi-- {
				if string(goods[gi]) == string(sv.active) {
					match = gi
					break
				}
			}
			reloadFailed := injected && !sv.failReload // the injected failure was consumed by this edit's reload
			if reloadFailed {
				failedFor = onDisk
			}
			// (so does a refusal of this very program while the file held what it holds now.
			// A refusal while the file held something else does not: the file has changed
			// since, so the manager has to try again)
			if failedFor == onDisk || (sv.lastRefused != nil && string(sv.lastRefused) == string(goods[len(goods)-1]) && sv.refusedWhile == onDisk) {
				reloadFailed = true // same bytes as when the server refused the reload: nothing new to load
			}
			switch {
			case match < 0:
				s.Fail("oracle", "library-server-broken", fmt.Sprintf("after edit %d (%s) the server's active bytecode is not the compilation of any content that ever compiled; reloads=%d events=%d\n%s", i, e.kind, sv.reloads, len(events), strings.Join(sample, "\n")))
			case latestCompiles && !reloadFailed && match != len(goods)-1:
				s.Fail("oracle", "library-server-stale", fmt.Sprintf("after edit %d (%s) and %v of quiet the content on disk compiles but the server still runs an older version (good version %d of %d); reloads=%d events=%d\n%s", i, e.kind, wait, match, len(goods)-1, sv.reloads, len(events), strings.Join(sample, "\n")))
			case match < confirmed:
				s.Fail("oracle", "library-server-went-back", fmt.Sprintf("after edit %d (%s) the server runs good version %d although it was already running version %d\n%s", i, e.kind, match, confirmed, strings.Join(sample, "\n")))
			}
			confirmed = match
			if fmt.Sprint(sv.state) != fmt.Sprint(map[string]interface{}{"sessions": 3, "token": "abc"}) {
				s.Fail("oracle", "library-state-lost", fmt.Sprintf("application state after reload is %v", sv.state))
			}
			sv.failReload = false
		}
	}
	// a later valid edit always takes effect (no injected failure pending, earlier reloads drained)
	sv.failReload = false
	c19wait(s, 2*time.Second+time.Duration(pending)*900*time.Millisecond+time.Duration(stallBudget)*46*time.Second)
	if fi, err := os.Stat(file); err == nil && fi.IsDir() {
		os.RemoveAll(file)
	}
	final := 2000 + len(edits)
	put(c19valid(final), "")
	c19wait(s, 4*time.Second+time.Duration(stalls)*46*time.Second)
	want, _ := c19compile(c19valid(final))
	if string(sv.active) != string(want) {
		s.Fail("oracle", "valid-edit-ignored:library", fmt.Sprintf("4 s after a final valid edit the server still runs other code; reloads=%d events=%d\n%s", sv.reloads, len(events), strings.Join(sample, "\n")))
	}
	for _, ev := range events {
		if !ev.Success && ev.Error == nil {
			s.Fail("oracle", "event-without-error", "a failed ReloadEvent carries no error")
		}
	}
	s.Probe("library-final-edit-took-effect")
}
