package websocket

// Overlay-only file added to pkg/websocket by the C16g harness (never committed to /repo):
// a read-only view of unexported membership state for checks made at quiescent points, when every
// simulated task is parked. No locks are taken; nothing is modified.

import "sort"

// SimConnView is both views of one connection's membership plus its registration state.
type SimConnView struct {
	ID         string
	Route      string
	Registered bool
	Own        []string // rooms in the connection's own view
	In         []string // rooms whose membership contains the connection
}

// SimInspect reports the views of the given connections.
func SimInspect(h *Hub, conns []*Connection) []SimConnView {
	var out []SimConnView
	for _, c := range conns {
		v := SimConnView{ID: c.ID, Route: c.RoutePattern(), Registered: h.connections[c]}
		for r := range c.rooms {
			v.Own = append(v.Own, r)
		}
		for name, r := range h.roomManager.rooms {
			if r.connections[c] {
				v.In = append(v.In, name)
			}
		}
		sort.Strings(v.Own)
		sort.Strings(v.In)
		out = append(out, v)
	}
	return out
}

// SimRegistered is the number of registered connections.
func SimRegistered(h *Hub) int { return len(h.connections) }
