package main

// glyphsim harness, second part of property C16 — "WebSocket rooms stay consistent under
// concurrency" at the language level: `@ ws` routes written in Glyph (on connect / on message /
// on disconnect bodies calling ws.join, ws.leave, ws.broadcast_to_room, ws.broadcast, ws.send,
// ws.close, ws.get_rooms, ws.get_room_clients) are parsed, compiled and registered by the real
// pipeline (parseSource -> setupRoutes -> registerCompiledWebSocketRoute -> executeWebSocketBytecode
// -> VM -> websocket.VMHandler -> hub), mounted the way `glyph run` mounts them, and driven by real
// gorilla clients over the simulated network, together with HTTP routes that read hub statistics
// from request goroutines. Injected into cmd/glyph at check time; never committed to /repo.

import (
	"bufio"
	"encoding/json"
	"fmt"
	"net"
	"net/http"
	"net/http/httptest"
	"net/url"
	"sort"
	"strings"
	"testing"
	"time"

	gws "github.com/gorilla/websocket"

	"github.com/glyphlang/glyph/pkg/ast"
	"github.com/glyphlang/glyph/pkg/server"
	"github.com/glyphlang/glyph/pkg/websocket"
	sim "github.com/glyphlang/glyph/pkg/zzsimrt"
)

func TestSim(t *testing.T) {
	simQuiet()
	sim.WorkerMain(t, map[string]sim.HarnessFunc{"C16g": c16gRun})
}

type g16writer struct {
	conn net.Conn
	brw  *bufio.ReadWriter
	hdr  http.Header
	code int
}

func (w *g16writer) Header() http.Header  { return w.hdr }
func (w *g16writer) WriteHeader(code int) { w.code = code }
func (w *g16writer) Write(b []byte) (int, error) {
	if w.code == 0 {
		w.code = 200
	}
	fmt.Fprintf(w.conn, "HTTP/1.1 %d %s\r\nContent-Length: %d\r\n\r\n", w.code, http.StatusText(w.code), len(b))
	return w.conn.Write(b)
}
func (w *g16writer) Hijack() (net.Conn, *bufio.ReadWriter, error) { return w.conn, w.brw, nil }

type g16obs struct {
	at   uint64
	raw  string
	u    string
	room string
	kind string // say | hello | join_ok | leave_ok | rooms | left | other
	rooms []string
	users []string
	me   string
}

type g16client struct {
	id        int
	path      string // request path
	home      string // room joined by the route's on-connect handler ("" = none)
	ws        *gws.Conn
	nc        *sim.SimConn
	obs       []g16obs
	closedAt  uint64
	connID    string // server-side connection id, learnt from the hello frame
	deafUntil time.Duration
}

type g16memb struct {
	kind      string // join | leave
	call, ret uint64
}

type g16bcast struct {
	u    string
	room string // "" = all
	call uint64
}

type g16world struct {
	s       *sim.Sim
	hub     *websocket.Hub
	handler http.Handler
	clients []*g16client
	conns   []*websocket.Connection
	gone    map[string]uint64
	memb    map[string][]g16memb // "clientID/room"
	bcasts  map[string]*g16bcast
	sample  []string
	nuniq   int
	variant g16variant
}

type g16variant struct {
	connectJoins   bool // on connect joins the path room
	connectHello   bool
	connectCloses  bool
	disconnectKind int  // 0 broadcast+leave, 1 joins a room (must have no effect), 2 sends to itself, 3 nothing, 4 joins+broadcasts
	lobbyRoute     bool
}

func (w *g16world) logf(format string, a ...any) {
	if len(w.sample) < 90 {
		w.sample = append(w.sample, fmt.Sprintf("[%d t=%v] ", w.s.Stamp(), w.s.Now())+fmt.Sprintf(format, a...))
	}
}

func (w *g16world) uniq(p string) string { w.nuniq++; return fmt.Sprintf("%s%d", p, w.nuniq) }

var g16rooms = []string{"r1", "r2", "r3"}

func g16source(v g16variant) string {
	var b strings.Builder
	b.WriteString("@ GET /stats {\n  > {n: ws.get_connection_count(), up: ws.get_uptime() >= 0}\n}\n\n")
	b.WriteString("@ GET /members/:room {\n  > {room: room, users: ws.get_room_clients(room)}\n}\n\n")
	b.WriteString("@ ws /room/:room {\n  on connect {\n")
	if v.connectCloses {
		// the connect handler turns some clients away at once (it runs on the hub, while the
		// connection is being registered)
		b.WriteString("    if room == \"r2\" {\n      ws.close(\"not here\")\n    }\n")
	}
	if v.connectJoins {
		b.WriteString("    ws.join(room)\n")
	}
	b.WriteString("    ws.send({kind: \"hello\", room: room, me: client})\n")
	b.WriteString("  }\n  on message {\n")
	b.WriteString(`    if input.cmd == "say" {
      ws.broadcast_to_room(room, {kind: "say", u: input.u, room: room})
    }
    if input.cmd == "sayto" {
      ws.broadcast_to_room(input.room, {kind: "say", u: input.u, room: input.room})
    }
    if input.cmd == "join" {
      ws.join(input.room)
      ws.send({kind: "join_ok", room: input.room})
    }
    if input.cmd == "leave" {
      ws.leave(input.room)
      ws.send({kind: "leave_ok", room: input.room})
    }
    if input.cmd == "all" {
      ws.broadcast({kind: "say", u: input.u})
    }
    if input.cmd == "rooms" {
      ws.send({kind: "rooms", rooms: ws.get_rooms(), users: ws.get_room_clients(room), room: room})
    }
    if input.cmd == "bye" {
      ws.close("bye")
    }
    if input.cmd == "joinsay" {
      ws.join(input.room)
      ws.broadcast_to_room(input.room, {kind: "say", u: input.u, room: input.room})
      ws.leave(input.room)
      ws.send({kind: "leave_ok", room: input.room})
    }
`)
	b.WriteString("  }\n  on disconnect {\n")
	switch v.disconnectKind {
	case 0:
		b.WriteString("    ws.broadcast_to_room(room, {kind: \"left\", who: client, room: room})\n    ws.leave(room)\n")
	case 1:
		b.WriteString("    ws.join(room)\n    ws.join(\"r3\")\n")
	case 2:
		b.WriteString("    ws.send({kind: \"late\"})\n    ws.leave(room)\n")
	case 3:
		b.WriteString("    ws.leave(room)\n")
	case 4:
		b.WriteString("    ws.join(\"r3\")\n    ws.broadcast_to_room(\"r3\", {kind: \"left\", who: client, room: \"r3\"})\n")
	}
	b.WriteString("  }\n}\n")
	if v.lobbyRoute {
		b.WriteString(`
@ ws /lobby {
  on connect {
    ws.join("lobby")
    ws.send({kind: "hello", room: "lobby", me: client})
  }
  on message {
    if input.cmd == "say" {
      ws.broadcast_to_room("lobby", {kind: "say", u: input.u, room: "lobby"})
    }
    if input.cmd == "rooms" {
      ws.send({kind: "rooms", rooms: ws.get_rooms(), users: ws.get_room_clients("lobby"), room: "lobby"})
    }
    if input.cmd == "join" {
      ws.send({kind: "join_refused", room: input.room})
    }
  }
  on disconnect {
    ws.leave("lobby")
  }
}
`)
	}
	return b.String()
}

func (w *g16world) connect(id int, path, home string) *g16client {
	s := w.s
	capacity := []int{512, 2048, 64 << 10}[s.Choose(sim.SWork, 3)]
	cc, sc := sim.NewSimConnPair(fmt.Sprintf("g%d", id), capacity)
	c := &g16client{id: id, nc: cc, path: path, home: home}
	w.clients = append(w.clients, c)
	if home != "" {
		w.noteMemb(id, home, "join", s.Stamp(), 0)
	}
	s.Spawn(fmt.Sprintf("accept#%d", id), func() {
		br := bufio.NewReader(sc)
		req, err := http.ReadRequest(br)
		if err != nil {
			sc.Close()
			return
		}
		wr := &g16writer{conn: sc, brw: bufio.NewReadWriter(br, bufio.NewWriter(sc)), hdr: http.Header{}}
		w.handler.ServeHTTP(wr, req)
	})
	u, _ := url.Parse("ws://sim.local" + path)
	ws, _, err := gws.NewClient(cc, u, http.Header{}, 1024, 1024)
	if err != nil {
		w.logf("client %d: handshake on %s failed: %v", id, path, err)
		cc.Close()
		return c
	}
	c.ws = ws
	w.logf("client %d connected on %s", id, path)
	s.Spawn(fmt.Sprintf("reader#%d", id), func() {
		for {
			if d := c.deafUntil - s.Now(); d > 0 {
				s.Sleep(d)
				continue
			}
			_, data, err := ws.ReadMessage()
			if err != nil {
				return
			}
			for _, part := range strings.Split(string(data), "\n") {
				if strings.TrimSpace(part) == "" {
					continue
				}
				o := g16obs{at: s.Stamp(), raw: part, kind: "other"}
				var m struct {
					Kind  string   `json:"kind"`
					U     string   `json:"u"`
					Room  string   `json:"room"`
					Me    string   `json:"me"`
					Rooms []string `json:"rooms"`
					Users []string `json:"users"`
				}
				if json.Unmarshal([]byte(part), &m) == nil && m.Kind != "" {
					o.kind, o.u, o.room, o.me, o.rooms, o.users = m.Kind, m.U, m.Room, m.Me, m.Rooms, m.Users
					if m.Kind == "hello" && c.connID == "" {
						c.connID = m.Me
					}
				}
				c.obs = append(c.obs, o)
			}
		}
	})
	return c
}

func (c *g16client) cmd(v map[string]any) error {
	if c.ws == nil {
		return fmt.Errorf("not connected")
	}
	b, _ := json.Marshal(map[string]any{"type": "json", "data": v})
	c.ws.SetWriteDeadline(time.Now().Add(2 * time.Second))
	return c.ws.WriteMessage(gws.TextMessage, b)
}

func (w *g16world) noteMemb(client int, room, kind string, call, ret uint64) int {
	k := fmt.Sprintf("%d/%s", client, room)
	w.memb[k] = append(w.memb[k], g16memb{kind: kind, call: call, ret: ret})
	return len(w.memb[k]) - 1
}

func c16gRun(s *sim.Sim, p *sim.Params) {
	s.SetLimits(900_000, 0)
	v := g16variant{
		connectJoins:   s.Choose(sim.SWork, 5) != 0,
		disconnectKind: s.Choose(sim.SWork, 5),
		lobbyRoute:     s.Choose(sim.SWork, 2) == 0,
		connectCloses:  s.Choose(sim.SWork, 4) == 0,
	}
	w := &g16world{s: s, gone: map[string]uint64{}, memb: map[string][]g16memb{}, bcasts: map[string]*g16bcast{}, variant: v}
	defer func() { s.Note("sample", w.sample) }()
	src := g16source(v)
	module, err := parseSource(src)
	if err != nil {
		s.InfraFail("C16g: generated module does not parse: " + err.Error())
	}
	useCompiler, _, wsServer, router, err := setupRoutes(module, "/nonexistent/c16g.glyph")
	if err != nil {
		s.InfraFail("C16g: setupRoutes: " + err.Error())
	}
	if !useCompiler {
		s.InfraFail("C16g: the module was not compiled (WebSocket routes exist in compiled mode only)")
	}
	// mounted exactly as startServer (`glyph run`) does
	mux := http.NewServeMux()
	mux.HandleFunc("/", createHandler(router))
	nws := 0
	for _, item := range module.Items {
		if wsRoute, ok := item.(*ast.WebSocketRoute); ok {
			mux.HandleFunc(server.ConvertPatternToMuxFormat(wsRoute.Path), wsServer.HandleWebSocketWithPattern(wsRoute.Path))
			nws++
		}
	}
	if nws == 0 {
		s.InfraFail("C16g: no WebSocket route in the parsed module")
	}
	w.handler = loggingMiddleware(mux)
	w.hub = wsServer.GetHub()
	w.hub.OnConnect(func(conn *websocket.Connection) error {
		sim.NoteKey(conn)
		w.conns = append(w.conns, conn)
		return nil
	})
	w.hub.OnDisconnect(func(conn *websocket.Connection) error {
		w.gone[conn.ID] = s.Stamp()
		return nil
	})
	w.logf("variant connectJoins=%v disconnectKind=%d lobby=%v", v.connectJoins, v.disconnectKind, v.lobbyRoute)

	nclients := 2 + s.Choose(sim.SWork, 4)
	var hs []*sim.Handle
	for ci := 0; ci < nclients; ci++ {
		id := ci
		path, home := "", ""
		if v.lobbyRoute && s.Choose(sim.SWork, 4) == 0 {
			path, home = "/lobby", "lobby"
		} else {
			r := g16rooms[s.Choose(sim.SWork, 2)]
			path = "/room/" + r
			if v.connectJoins {
				home = r
			}
		}
		type op struct {
			kind string
			room string
			d    time.Duration
		}
		nops := 2 + s.Choose(sim.SWork, 9)
		ops := make([]op, nops)
		for i := range ops {
			o := op{room: g16rooms[s.Choose(sim.SWork, len(g16rooms))]}
			switch r := s.Choose(sim.SWork, 22); {
			case r < 5:
				o.kind = "say"
			case r < 7:
				o.kind = "sayto"
			case r < 10:
				o.kind = "join"
			case r < 12:
				o.kind = "leave"
			case r < 13:
				o.kind = "all"
			case r < 14:
				o.kind = "rooms"
			case r < 15:
				o.kind = "bye"
			case r < 16:
				o.kind = "close"
			case r < 17:
				o.kind = "vanish"
			case r < 19:
				o.kind = "sleep"
				o.d = []time.Duration{time.Millisecond, 200 * time.Millisecond, 2 * time.Second, 40 * time.Second}[s.Choose(sim.SWork, 4)]
			case r < 20:
				o.kind = "joinsay"
			case r < 21:
				if s.Choose(sim.SWork, 2) == 0 {
					o.kind = "odd" // frames the handlers were not written for
					break
				}
				o.kind = "proto-join" // the built-in join_room frame next to the Glyph handlers
			default:
				o.kind = "deaf"
				o.d = []time.Duration{time.Second, 5 * time.Second}[s.Choose(sim.SWork, 2)]
			}
			ops[i] = o
		}
		hs = append(hs, s.Spawn(fmt.Sprintf("client#%d", id), func() {
			c := w.connect(id, path, home)
			if c.ws == nil {
				return
			}
			lobby := path == "/lobby"
			for _, o := range ops {
				if c.closedAt != 0 {
					return
				}
				s.Op(o.kind)
				var err error
				switch o.kind {
				case "say":
					room := strings.TrimPrefix(path, "/room/")
					if lobby {
						room = "lobby"
					}
					u := w.uniq("s")
					w.bcasts[u] = &g16bcast{u: u, room: room, call: s.Stamp()}
					err = c.cmd(map[string]any{"cmd": "say", "u": u})
				case "sayto":
					if lobby {
						continue
					}
					u := w.uniq("t")
					w.bcasts[u] = &g16bcast{u: u, room: o.room, call: s.Stamp()}
					err = c.cmd(map[string]any{"cmd": "sayto", "u": u, "room": o.room})
				case "join":
					if !lobby {
						w.noteMemb(id, o.room, "join", s.Stamp(), 0)
					}
					err = c.cmd(map[string]any{"cmd": "join", "room": o.room})
				case "leave":
					if lobby {
						continue
					}
					w.noteMemb(id, o.room, "leave-sent", s.Stamp(), 0)
					err = c.cmd(map[string]any{"cmd": "leave", "room": o.room})
				case "joinsay":
					if lobby {
						continue
					}
					u := w.uniq("j")
					w.noteMemb(id, o.room, "join", s.Stamp(), 0)
					w.bcasts[u] = &g16bcast{u: u, room: o.room, call: s.Stamp()}
					w.noteMemb(id, o.room, "leave-sent", s.Stamp(), 0)
					err = c.cmd(map[string]any{"cmd": "joinsay", "u": u, "room": o.room})
				case "odd":
					// values of unexpected types where the handler expects a room name or a command,
					// plain text, a JSON array, a frame without data: the handler may fail, the hub
					// must go on
					frames := []string{
						`{"type":"json","data":{"cmd":"join","room":{"nested":true}}}`,
						`{"type":"json","data":{"cmd":"join","room":5}}`,
						`{"type":"json","data":{"cmd":"sayto","u":"zz","room":null}}`,
						`{"type":"json","data":{"cmd":"leave"}}`,
						`{"type":"json","data":{"cmd":["say"],"u":7}}`,
						`{"type":"json","data":[1,2,3]}`,
						`{"type":"json","data":"just a string"}`,
						`{"type":"json"}`,
						`{"type":"text","data":"hello there"}`,
						`plain text, not JSON at all`,
						`{"type":"json","data":{"cmd":"join","room":""}}`,
						`{"type":"json","data":{"cmd":"sayto","u":"zz","room":"` + strings.Repeat("r", 300) + `"}}`,
					}
					s.Fault("unexpected-frame")
					frame := frames[s.Choose(sim.SWork, len(frames))]
					if strings.Contains(frame, `"cmd":"join"`) && !lobby {
						// whatever room name the handler makes of the value, the client asked for it
						for _, r := range []string{"", "5", "map[nested:true]", "{\"nested\":true}"} {
							w.noteMemb(id, r, "join", s.Stamp(), 0)
						}
					}
					c.ws.SetWriteDeadline(time.Now().Add(2 * time.Second))
					err = c.ws.WriteMessage(gws.TextMessage, []byte(frame))
				case "proto-join":
					w.noteMemb(id, o.room, "join", s.Stamp(), 0)
					b, _ := json.Marshal(map[string]any{"type": "join_room", "room": o.room})
					c.ws.SetWriteDeadline(time.Now().Add(2 * time.Second))
					err = c.ws.WriteMessage(gws.TextMessage, b)
				case "all":
					if lobby {
						continue
					}
					u := w.uniq("g")
					w.bcasts[u] = &g16bcast{u: u, call: s.Stamp()}
					err = c.cmd(map[string]any{"cmd": "all", "u": u})
				case "rooms":
					err = c.cmd(map[string]any{"cmd": "rooms"})
				case "bye":
					if lobby {
						continue
					}
					s.Fault("server-close")
					err = c.cmd(map[string]any{"cmd": "bye"})
				case "close":
					w.logf("client %d closes", id)
					c.ws.WriteControl(gws.CloseMessage, gws.FormatCloseMessage(gws.CloseNormalClosure, ""), time.Now().Add(time.Second))
					c.closedAt = s.Stamp()
					c.nc.Close()
					s.Fault("client-close")
				case "vanish":
					w.logf("client %d vanishes", id)
					c.closedAt = s.Stamp()
					c.nc.Close()
					s.Fault("client-vanish")
				case "sleep":
					s.Sleep(o.d)
				case "deaf":
					c.deafUntil = s.Now() + o.d
					s.Fault("client-stops-reading")
				}
				if err != nil {
					return
				}
			}
		}))
	}
	// HTTP routes reading hub state from request goroutines while the hub loop runs
	nhttp := s.Choose(sim.SWork, 3)
	for hi := 0; hi < nhttp; hi++ {
		n := 1 + s.Choose(sim.SWork, 6)
		picks := make([]int, n)
		for i := range picks {
			picks[i] = s.Choose(sim.SWork, 4)
		}
		hs = append(hs, s.Spawn(fmt.Sprintf("http#%d", hi), func() {
			for _, pk := range picks {
				path := "/stats"
				if pk > 0 {
					path = "/members/" + g16rooms[pk-1]
				}
				req := httptest.NewRequest("GET", path, nil)
				req.RemoteAddr = "10.1.1.1:1"
				rec := httptest.NewRecorder()
				w.handler.ServeHTTP(rec, req)
				s.Probe("http-stats-request")
				if rec.Code != 200 {
					s.Fail("oracle", "stats-route-failed", fmt.Sprintf("GET %s answered %d %s while WebSocket clients were active", path, rec.Code, strings.TrimSpace(rec.Body.String())))
				}
				s.Sleep([]time.Duration{0, time.Millisecond, 300 * time.Millisecond}[pk%3])
			}
		}))
	}
	if !s.WaitTimeout(5*time.Minute, hs...) {
		s.Fail("deadlock", s.BlockedSitesOf(hs...), "client operations did not complete: "+s.BlockedSummary())
	}
	s.SetClockJumps(false) // faults stop here: the liveness bound below is in simulated seconds
	s.Sleep(5 * time.Second)
	s.Quiesce(0)
	w.checkViews("after-workload")
	w.checkDelivery()
	w.liveness()
}

func (w *g16world) clientOf(connID string) *g16client {
	for _, c := range w.clients {
		if c.connID == connID && connID != "" {
			return c
		}
	}
	return nil
}

func (w *g16world) checkViews(when string) {
	s := w.s
	views := websocket.SimInspect(w.hub, w.conns)
	for _, v := range views {
		who := "?"
		if c := w.clientOf(v.ID); c != nil {
			who = fmt.Sprint(c.id)
		}
		desc := fmt.Sprintf("connection of client %s on %s (registered=%v): own view %v, rooms containing it %v; handlers: connectJoins=%v disconnectKind=%d", who, v.Route, v.Registered, v.Own, v.In, w.variant.connectJoins, w.variant.disconnectKind)
		if !v.Registered {
			s.Probe("disconnected-connection-checked")
			if len(v.In) > 0 {
				s.Fail("invariant", "disconnected-in-room", when+": a disconnected connection is still a member of a room: "+desc+"\n"+strings.Join(w.sample, "\n"))
			}
			if len(v.Own) > 0 {
				s.Fail("invariant", "disconnected-own-view", when+": a disconnected connection still lists rooms in its own view: "+desc+"\n"+strings.Join(w.sample, "\n"))
			}
			continue
		}
		if fmt.Sprint(v.Own) != fmt.Sprint(v.In) {
			s.Fail("invariant", "views-disagree", when+": the connection's own view and the rooms' membership differ: "+desc+"\n"+strings.Join(w.sample, "\n"))
		}
		// a client on /lobby can only ever be in "lobby" (its handlers never join anything else,
		// and handlers of the other route must not run for it), unless it used the built-in frame
		if c := w.clientOf(v.ID); c != nil && c.path == "/lobby" {
			for _, r := range v.In {
				if r == "lobby" {
					continue
				}
				asked := false
				for _, e := range w.memb[fmt.Sprintf("%d/%s", c.id, r)] {
					asked = asked || e.kind == "join"
				}
				if !asked {
					s.Fail("oracle", "handler-of-other-route-ran", fmt.Sprintf("%s: a /lobby connection is a member of room %s which only the /room/:room handlers join: %s", when, r, desc))
				}
			}
		}
	}
	s.Probe("views-checked")
}

func (w *g16world) checkDelivery() {
	s := w.s
	for _, c := range w.clients {
		for _, o := range c.obs {
			k := fmt.Sprintf("%d/%s", c.id, o.room)
			switch o.kind {
			case "join_ok":
				evs := w.memb[k]
				for i := range evs {
					if evs[i].kind == "join" && evs[i].ret == 0 {
						evs[i].ret = o.at
						break
					}
				}
			case "leave_ok":
				evs := w.memb[k]
				for i := range evs {
					if evs[i].kind == "leave-sent" {
						evs[i].kind = "leave"
						evs[i].ret = o.at
						break
					}
				}
			case "join_refused":
				if c.path != "/lobby" {
					s.Fail("oracle", "handler-of-other-route-ran", fmt.Sprintf("client %d on %s received the /lobby handler's reply %s", c.id, c.path, o.raw))
				}
			case "late":
				s.Probe("disconnect-handler-send-observed")
			}
		}
	}
	for _, c := range w.clients {
		for _, o := range c.obs {
			if o.kind == "rooms" {
				// every room the connection reports was asked for by this client at some point
				for _, r := range o.rooms {
					asked := false
					for _, e := range w.memb[fmt.Sprintf("%d/%s", c.id, r)] {
						asked = asked || e.kind == "join"
					}
					if !asked {
						s.Fail("oracle", "rooms-view-wrong", fmt.Sprintf("client %d (%s) is told it is in room %s, which it never asked to join: %s", c.id, c.path, r, o.raw))
					}
				}
				s.Probe("rooms-reply-checked")
				continue
			}
			if o.kind == "left" {
				// sent by a disconnect handler to a room: the observer must have asked to join it
				asked := false
				for _, e := range w.memb[fmt.Sprintf("%d/%s", c.id, o.room)] {
					asked = asked || (e.kind == "join" && e.call < o.at)
				}
				if !asked {
					s.Fail("oracle", "delivered-to-non-member", fmt.Sprintf("client %d (%s) observed the disconnect notice %s for room %s which it never asked to join", c.id, c.path, o.raw, o.room))
				}
				continue
			}
			b := w.bcasts[o.u]
			if o.u == "" || b == nil {
				continue
			}
			if c.connID != "" {
				if g, ok := w.gone[c.connID]; ok && b.call > g {
					s.Fail("oracle", "delivered-after-disconnect", fmt.Sprintf("client %d observed %s, broadcast at %d, although the hub had completed its disconnect at %d", c.id, o.u, b.call, g))
				}
			}
			if b.room == "" {
				continue
			}
			s.Probe("room-message-observed")
			if o.room != b.room {
				s.Fail("oracle", "room-message-mislabelled", fmt.Sprintf("client %d observed %s labelled room %s, it was broadcast to room %s", c.id, o.u, o.room, b.room))
			}
			evs := w.memb[fmt.Sprintf("%d/%s", c.id, b.room)]
			joinedBefore := false
			for _, e := range evs {
				if e.kind == "join" && e.call < o.at {
					joinedBefore = true
				}
			}
			if !joinedBefore {
				s.Fail("oracle", "delivered-to-non-member", fmt.Sprintf("client %d (%s) observed room message %s for room %s at %d but never asked to join that room before\n%s", c.id, c.path, o.u, b.room, o.at, strings.Join(w.sample, "\n")))
			}
			for _, e := range evs {
				if e.kind != "leave" || e.ret == 0 || e.ret >= b.call {
					continue
				}
				rejoined := false
				for _, j := range evs {
					if j.kind == "join" && j.call < o.at && (j.ret == 0 || j.ret > e.call) {
						rejoined = true
					}
				}
				if !rejoined {
					s.Fail("oracle", "delivered-after-leave", fmt.Sprintf("client %d observed room message %s (broadcast invoked at %d) for room %s although its leave had completed at %d and it did not rejoin", c.id, o.u, b.call, b.room, e.ret))
				}
			}
		}
	}
	// the language-level membership listing agrees with the hub at quiescence
	for _, r := range append(append([]string{}, g16rooms...), "lobby") {
		req := httptest.NewRequest("GET", "/members/"+r, nil)
		req.RemoteAddr = "10.1.1.1:1"
		rec := httptest.NewRecorder()
		w.handler.ServeHTTP(rec, req)
		var m struct {
			Users []string `json:"users"`
		}
		if rec.Code != 200 || json.Unmarshal(rec.Body.Bytes(), &m) != nil {
			s.Fail("oracle", "stats-route-failed", fmt.Sprintf("GET /members/%s answered %d %s", r, rec.Code, strings.TrimSpace(rec.Body.String())))
		}
		var want []string
		for _, v := range websocket.SimInspect(w.hub, w.conns) {
			for _, in := range v.In {
				if in == r {
					want = append(want, v.ID)
				}
			}
		}
		sort.Strings(want)
		sort.Strings(m.Users)
		if fmt.Sprint(want) != fmt.Sprint(m.Users) {
			s.Fail("oracle", "members-listing-wrong", fmt.Sprintf("ws.get_room_clients(%q) from an HTTP route lists %v, the room's membership is %v", r, m.Users, want))
		}
	}
	s.Probe("members-listing-checked")
}

func (w *g16world) liveness() {
	s := w.s
	done := false
	u := w.uniq("L")
	probe := s.Spawn("liveness-probe", func() {
		c := w.connect(1000+len(w.clients), "/room/live", "")
		if c.ws == nil {
			return
		}
		// join explicitly (the connect handler may not join in this variant), then talk to the room
		if err := c.cmd(map[string]any{"cmd": "join", "room": "live"}); err != nil {
			return
		}
		for i := 0; i < 400 && !done; i++ {
			joined := false
			for _, o := range c.obs {
				joined = joined || (o.kind == "join_ok" && o.room == "live")
			}
			if joined {
				c.cmd(map[string]any{"cmd": "sayto", "u": u, "room": "live"})
				for k := 0; k < 400 && !done; k++ {
					for _, o := range c.obs {
						if o.u == u {
							done = true
						}
					}
					if !done {
						s.Sleep(50 * time.Millisecond)
					}
				}
				return
			}
			s.Sleep(50 * time.Millisecond)
		}
	})
	ok := s.WaitTimeout(60*time.Second, probe)
	if !ok || !done {
		s.Fail("deadlock", "liveness:"+s.BlockedSitesOf(probe), fmt.Sprintf("after faults stopped a fresh client could not connect to /room/live, join and receive its own room broadcast within 60 simulated seconds (probe finished=%v); blocked: %s\n%s", ok, s.BlockedSummary(), strings.Join(w.sample, "\n")))
	}
	s.Probe("liveness-probe-ok")
}
