package main

// (K) C06, the API-key validator (pkg/apikey): keys are issued and revoked at runtime while
// requests carrying them are being served. The history of AddKey / RemoveKey / request must be
// linearizable with respect to a plain key set: a request is served iff its key is in the set.

import (
	"fmt"
	"net/http"
	"net/http/httptest"
	"strings"
	"time"

	"github.com/anishathalye/porcupine"
	"github.com/glyphlang/glyph/pkg/apikey"
	sim "github.com/glyphlang/glyph/pkg/zzsimrt"
)

type c06kop struct {
	kind string // add | remove | request
	key  int
	how  int // request: 0 header, 1 query parameter
}

func (o c06kop) String() string { return fmt.Sprintf("%s(k%d)", o.kind, o.key) }

func c06ApiKeys(s *sim.Sim, p *sim.Params) {
	var sample []string
	defer func() { s.Note("sample", sample) }()
	// (one is a prefix of another; the last three differ only in surrounding white space, as keys
	// read from a file with CRLF line ends or indentation do: they are issued and revoked under
	// exactly these strings, and requests only ever present the clean one)
	keys := []string{"key-aaaa-1", "key-bbbb-2", "key-cccc-3", "key-aaaa-10", "key-dddd-4", "key-dddd-4\r", "  key-dddd-4"}
	const cleanKeys = 5
	const variantMask = 1<<4 | 1<<5 | 1<<6
	initial := 0
	var static []string
	for i, k := range keys {
		if s.Choose(sim.SWork, 2) == 0 {
			static = append(static, k)
			initial |= 1 << i
		}
	}
	cfg := apikey.Config{StaticKeys: static, QueryParam: "api_key"}
	if s.Choose(sim.SWork, 3) == 0 {
		cfg.HeaderName = "Authorization"
	}
	v := apikey.NewValidator(cfg)
	h := apikey.Middleware(v)(http.HandlerFunc(func(w http.ResponseWriter, r *http.Request) {
		w.WriteHeader(200)
		w.Write([]byte("vault-contents-91"))
	}))
	sample = append(sample, fmt.Sprintf("mode=apikey-validator header=%q initial=%04b", v.HeaderName(), initial))
	type rec struct {
		task      int
		op        c06kop
		ok        bool
		call, ret uint64
	}
	var hist []rec
	ntasks := 2 + s.Choose(sim.SWork, 3)
	var hs []*sim.Handle
	for ti := 0; ti < ntasks; ti++ {
		n := 2 + s.Choose(sim.SWork, 5)
		ops := make([]c06kop, n)
		for i := range ops {
			ops[i] = c06kop{kind: []string{"add", "remove", "request", "request"}[s.Choose(sim.SWork, 4)], key: s.Choose(sim.SWork, len(keys)), how: s.Choose(sim.SWork, 3)}
			if ops[i].kind == "request" && ops[i].key >= cleanKeys {
				ops[i].key = 4
			}
		}
		ti := ti
		hs = append(hs, s.Spawn(fmt.Sprintf("caller#%d", ti), func() {
			for _, o := range ops {
				s.Op(o.String())
				call := s.Stamp()
				ok := true
				switch o.kind {
				case "add":
					v.AddKey(keys[o.key], &apikey.KeyInfo{ID: fmt.Sprint(o.key), Key: keys[o.key]})
				case "remove":
					v.RemoveKey(keys[o.key])
				default:
					target := "/vault"
					req := httptest.NewRequest("GET", target, nil)
					if o.how == 1 {
						req = httptest.NewRequest("GET", target+"?api_key="+keys[o.key], nil)
					} else if v.HeaderName() == "Authorization" {
						req.Header.Set("Authorization", "Bearer "+keys[o.key])
					} else {
						req.Header.Set(v.HeaderName(), keys[o.key])
					}
					rec := httptest.NewRecorder()
					h.ServeHTTP(rec, req)
					ok = rec.Code == 200
					if bodyRan := strings.Contains(rec.Body.String(), "vault-contents-91"); ok != bodyRan {
						s.Fail("oracle", "apikey:status-and-body-disagree", fmt.Sprintf("request with %s answered %d, protected body ran=%v", keys[o.key], rec.Code, bodyRan))
					}
				}
				hist = append(hist, rec{ti, o, ok, call, s.Stamp()})
			}
		}))
	}
	if !s.WaitTimeout(time.Minute, hs...) {
		s.Fail("deadlock", s.BlockedSitesOf(hs...), "validator calls did not return: "+s.BlockedSummary())
	}
	var ops []porcupine.Operation
	var lines []string
	for _, r := range hist {
		ops = append(ops, porcupine.Operation{ClientId: r.task, Input: r.op, Output: r.ok, Call: int64(r.call), Return: int64(r.ret)})
		lines = append(lines, fmt.Sprintf("t%d [%d,%d] %v -> %v", r.task, r.call, r.ret, r.op, r.ok))
	}
	sample = append(sample, lines...)
	model := porcupine.Model{
		Init: func() interface{} { return initial },
		Step: func(state, in, out interface{}) (bool, interface{}) {
			st, o := state.(int), in.(c06kop)
			switch o.kind {
			case "add":
				return true, st | 1<<o.key
			case "remove":
				return true, st &^ (1 << o.key)
			}
			if o.key == 4 && st&(1<<4) == 0 && st&variantMask != 0 {
				// only a white-space variant of the presented key is in the set: whether the two
				// strings name the same key is the validator's business; what it may not do is
				// serve the key once every variant has been revoked
				return true, st
			}
			return out.(bool) == (st&(1<<o.key) != 0), st
		},
	}
	s.Probe("apikey-validator-run")
	s.AfterRun(func() *sim.Violation {
		if porcupine.CheckOperationsTimeout(model, ops, 15*time.Second) == porcupine.Illegal {
			return &sim.Violation{Class: "oracle", Site: "apikey:not-linearizable", Msg: "no order of the key-set operations explains which requests were served (a request is served iff its key is in the set):\n  " + strings.Join(lines, "\n  ")}
		}
		return nil
	})
}
