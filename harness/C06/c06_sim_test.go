package main

// glyphsim harness for property C06 — "declared authentication fails closed" (stateful facet:
// failure tracker, lockout deadlines, reset window, cleanup ticker, concurrency).
// Injected into cmd/glyph at check time; never committed to /repo.

import (
	"fmt"
	"net/http"
	"net/http/httptest"
	"os"
	"strings"
	"testing"
	"time"

	"github.com/glyphlang/glyph/pkg/server"
	sim "github.com/glyphlang/glyph/pkg/zzsimrt"
)

func TestSim(t *testing.T) {
	simQuiet()
	sim.WorkerMain(t, map[string]sim.HarnessFunc{"C06": c06Run})
}

type c06route struct {
	path   string
	kind   string // open | jwt | apikey
	marker string
	method string // "" = GET
}

// Two verbs share the path /notes: one open, one protected — each has its own body and its own
// directives, in both execution modes.
var c06routes = []c06route{
	{"/open", "open", "open-ran-11", ""},
	{"/jwt", "jwt", "jwt-ran-22", ""},
	{"/key", "apikey", "key-ran-33", ""},
	{"/jwt2", "jwt", "jwt2-ran-44", ""},
	{"/notes", "open", "notes-list-55", "GET"},
	{"/notes", "jwt", "notes-create-66", "POST"},
	{"/vault", "apikey", "vault-read-77", "GET"},
	{"/vault", "open", "vault-ping-88", "DELETE"},
}

func (rt c06route) verb() string {
	if rt.method == "" {
		return "GET"
	}
	return rt.method
}

type c06req struct {
	client    int
	route     c06route
	hdr       [][2]string
	shape     string
	carries   bool // some header value contains a configured credential of the route's auth type
	canonical bool
	badCred   bool // counts as a failed attempt from the tracker's point of view (anything but canonical)
	call, ret uint64
	at        time.Duration
	status    int
	body      string
}

type c06sys struct {
	declaredTwice bool // every route behind auth is also declared, earlier, without auth and with another body
	direct    bool
	do        func(r *c06req)
	jwtSecret string   // configured (trimmed, non-blank) or ""
	apiKeys   []string // configured keys
	cfg       server.AuthRateLimitConfig
	lockouts  bool // whether the jwt path has failure tracking (always true in this code base)
	v6        bool // clients connect from IPv6 addresses
}

func (y *c06sys) creds(kind string) []string {
	switch kind {
	case "jwt":
		if y.jwtSecret != "" {
			return []string{y.jwtSecret}
		}
	case "apikey":
		return y.apiKeys
	}
	return nil
}

// c06shape builds the headers of one request for a route and classifies it.
func c06shape(s *sim.Sim, y *c06sys, rt c06route, r *c06req) {
	creds := y.creds(rt.kind)
	valid := "not-configured-anything"
	if len(creds) > 0 {
		valid = creds[s.Choose(sim.SWork, len(creds))]
	}
	other := "" // a credential configured for the *other* auth type
	if rt.kind == "jwt" && len(y.apiKeys) > 0 {
		other = y.apiKeys[0]
	} else if rt.kind == "apikey" {
		other = y.jwtSecret
	}
	n := 14
	k := s.Choose(sim.SWork, n)
	if rt.kind == "open" {
		k = []int{0, 2, 3}[s.Choose(sim.SWork, 3)]
	}
	set := func(h, v string) { r.hdr = append(r.hdr, [2]string{h, v}) }
	switch k {
	case 0, 1, 9: // canonical valid credential
		r.shape = "canonical"
		if rt.kind == "apikey" && s.Choose(sim.SWork, 2) == 0 {
			set("X-API-Key", valid)
		} else {
			set("Authorization", "Bearer "+valid)
		}
		r.canonical = len(creds) > 0
	case 2:
		r.shape = "no-header"
	case 3:
		r.shape = "wrong-credential"
		set("Authorization", "Bearer wrong-"+fmt.Sprint(s.Choose(sim.SWork, 1000)))
	case 4:
		r.shape = "empty-value"
		set("Authorization", "")
		set("X-API-Key", "")
	case 5:
		r.shape = "prefix-only"
		set("Authorization", "Bearer ")
	case 6:
		r.shape = "other-scheme"
		set("Authorization", "Basic dXNlcjpwYXNz")
	case 7:
		r.shape = "valid-in-wrong-header"
		set("X-Auth-Token", valid)
		set("Cookie", "token="+valid)
	case 8:
		r.shape = "credential-of-other-auth-type"
		if other != "" {
			set("Authorization", "Bearer "+other)
			set("X-API-Key", other)
		} else {
			set("Authorization", "Bearer nothing")
		}
	case 12, 13:
		// whitespace-only token: equals a blank (unconfigured) secret character for character
		r.shape = "blank-token"
		set("Authorization", "Bearer "+strings.Repeat(" ", 1+s.Choose(sim.SWork, 4)))
		if k == 13 {
			set("X-API-Key", strings.Repeat(" ", 1+s.Choose(sim.SWork, 3)))
		}
	case 10:
		r.shape = "lowercase-scheme"
		set("Authorization", "bearer "+valid)
	default:
		if parts := strings.Split(valid, ","); len(parts) > 1 && s.Choose(sim.SWork, 2) == 0 {
			// one comma-separated piece of the configured credential
			r.shape = "credential-fragment"
			piece := strings.TrimSpace(parts[s.Choose(sim.SWork, len(parts))])
			if piece == "" {
				piece = "anything-at-all"
			}
			set("Authorization", "Bearer "+piece)
		} else {
			r.shape = "truncated-credential"
			if len(valid) > 2 {
				set("Authorization", "Bearer "+valid[:len(valid)-1])
			}
		}
	}
	// forged forwarding headers ride along on any request
	switch s.Choose(sim.SWork, 4) {
	case 1:
		set("X-Forwarded-For", fmt.Sprintf("198.51.100.%d", s.Choose(sim.SWork, 200)))
	case 2:
		set("X-Real-IP", "10.0.0.1")
	}
	// "carries" is judged on the headers an auth scheme could look at, by substring: the most
	// generous reading, so that the fail-closed oracle can never be stricter than the property
	for _, h := range r.hdr {
		if h[0] == "X-Forwarded-For" || h[0] == "X-Real-IP" {
			continue
		}
		for _, c := range creds {
			if c != "" && strings.Contains(h[1], c) {
				r.carries = true
			}
		}
	}
	r.badCred = !r.canonical
}

// c06peer renders the socket peer address of a client: IPv4, or IPv6 hosts that share their
// leading groups (identity is the whole host, whatever the address family).
func c06peer(v6 bool, client int, port int) string {
	if v6 {
		return fmt.Sprintf("[2001:db8::%x]:%d", client+1, port)
	}
	if client >= 250 {
		return fmt.Sprintf("10.%d.%d.%d:%d", 1+(client>>16)&255, (client>>8)&255, client&255, port)
	}
	return fmt.Sprintf("10.0.1.%d:%d", client+1, port)
}

func c06build(s *sim.Sim, p *sim.Params) *c06sys {
	y := &c06sys{lockouts: true}
	y.v6 = s.Choose(sim.SWork, 3) == 0
	y.direct = s.Choose(sim.SWork, 10) < 4
	if p.Knob("direct", -1) >= 0 {
		y.direct = p.Knob("direct", 0) == 1
	}
	if y.direct {
		tok := "direct-token-9c1"
		y.jwtSecret = tok
		y.cfg = server.AuthRateLimitConfig{
			MaxFailures:     2 + s.Choose(sim.SWork, 3),
			LockoutDuration: []time.Duration{100 * time.Millisecond, time.Second, 5 * time.Second}[s.Choose(sim.SWork, 3)],
			MaxLockout:      []time.Duration{2 * time.Second, 10 * time.Second, 30 * time.Second}[s.Choose(sim.SWork, 3)],
			ResetAfter:      []time.Duration{time.Second, 7 * time.Second, 20 * time.Second, 2 * time.Minute}[s.Choose(sim.SWork, 4)],
		}
		if y.cfg.MaxLockout < y.cfg.LockoutDuration {
			y.cfg.MaxLockout = y.cfg.LockoutDuration
		}
		mw := server.BasicAuthMiddlewareWithConfig(map[string]bool{tok: true}, y.cfg)
		h := mw(func(ctx *server.Context) error {
			return server.SendJSON(ctx, http.StatusOK, map[string]interface{}{"marker": "jwt-ran-22"})
		})
		y.do = func(r *c06req) {
			req := httptest.NewRequest("GET", r.route.path, nil)
			req.RemoteAddr = c06peer(y.v6, r.client, 30000+int(r.call%20000))
			for _, kv := range r.hdr {
				req.Header.Add(kv[0], kv[1])
			}
			rec := httptest.NewRecorder()
			ctx := &server.Context{Request: req, ResponseWriter: rec, PathParams: map[string]string{}, StatusCode: http.StatusOK}
			if err := h(ctx); err != nil {
				r.status = 500
				return
			}
			r.status, r.body = rec.Code, rec.Body.String()
		}
		return y
	}
	y.cfg = server.DefaultAuthRateLimitConfig()
	// set, unset, blank, made of separators only (two variables that were meant to be joined and are
	// both unset), or one secret that happens to contain a comma
	jwt := []string{"s3cr3t-jwt-XYZ", "s3cr3t-jwt-XYZ", "", "   ", ",", " , ,", "alpha-s3,beta-s3", "s3cr3t-jwt-XYZ"}[s.Choose(sim.SWork, 8)]
	keys := []string{"key-one, key-two", "key-one, key-two", "", " , "}[s.Choose(sim.SWork, 4)]
	os.Setenv(envJWTSecret, jwt)
	os.Setenv(envAPIKeys, keys)
	y.jwtSecret = strings.TrimSpace(jwt)
	for _, k := range strings.Split(keys, ",") {
		if t := strings.TrimSpace(k); t != "" {
			y.apiKeys = append(y.apiKeys, t)
		}
	}
	// the auth type is spelled in any letter case (the declaration is case-insensitive)
	spell := func(kind string) string {
		switch kind {
		case "jwt":
			return []string{"jwt", "jwt", "JWT", "Jwt"}[s.Choose(sim.SWork, 4)]
		case "apikey":
			return []string{"apikey", "apikey", "ApiKey", "APIKEY", "apiKey"}[s.Choose(sim.SWork, 5)]
		}
		return kind
	}
	// the declaration sits among the other things a route may declare: a query parameter with a
	// default in front of it, a (generous) rate limit before or after it — under a window name
	// the language knows or one it does not —, a statement in front of it
	shape := s.Choose(sim.SWork, 8)
	window := []string{"min", "hour", "week", "month", "fortnight"}[s.Choose(sim.SWork, 5)]
	module := func(kindOf func(c06route) string) string {
		var src strings.Builder
		for _, rt := range c06routes {
			fmt.Fprintf(&src, "@ %s %s {\n", rt.verb(), rt.path)
			before, after := "", ""
			switch shape {
			case 1:
				before = "  ? page: int = 1\n"
			case 2:
				before = "  ? q: str = \"none\"\n  ? page: int = 1 + 1\n"
			case 3:
				before = fmt.Sprintf("  + ratelimit(100000000/%s)\n", window)
			case 4:
				after = fmt.Sprintf("  + ratelimit(100000000/%s)\n", window)
			case 5:
				before = "  $ greeting = \"hello\"\n"
			case 6:
				before = "  ? page: int = 1\n"
				after = fmt.Sprintf("  + ratelimit(100000000/%s)\n", window)
			}
			k := kindOf(rt)
			if shape == 7 && k != "open" {
				// the same verb and path declared twice: first without auth (another body), then
				// with it. Whichever declaration answers, the body behind auth is not for callers
				// without a credential.
				fmt.Fprintf(&src, "  > {marker: \"public-side-of%s\"}\n}\n\n@ %s %s {\n", strings.ReplaceAll(rt.path, "/", "-"), rt.verb(), rt.path)
			}
			if k == "open" {
				// nothing to protect: the extras stay, the declaration is absent
				src.WriteString(before)
				src.WriteString(after)
			} else {
				src.WriteString(before)
				fmt.Fprintf(&src, "  + auth(%s)\n", spell(k))
				src.WriteString(after)
			}
			fmt.Fprintf(&src, "  > {marker: \"%s\"}\n}\n\n", rt.marker)
		}
		return src.String()
	}
	y.declaredTwice = shape == 7
	if shape != 0 {
		if _, err := simBuildServer(module(func(rt c06route) string { return rt.kind }), false); err != nil {
			s.Probe("route-shape-not-accepted")
			shape = 0
			y.declaredTwice = false
		} else {
			s.Probe("auth-among-other-declarations")
		}
	}
	interp := s.Choose(sim.SWork, 2) == 1
	if s.Choose(sim.SWork, 4) == 0 {
		// history: the same process served an earlier version of the file first (as `glyph dev`
		// does on every save) in which the routes declared other auth types, with other
		// credentials configured; nothing of it may survive into the server under test
		s.Probe("rebuilt-after-earlier-version")
		os.Setenv(envJWTSecret, "earlier-secret-1")
		os.Setenv(envAPIKeys, "earlier-key-1")
		rot := map[string]string{"open": "jwt", "jwt": "apikey", "apikey": "open"}
		if old, err := simBuildServer(module(func(rt c06route) string { return rot[rt.kind] }), interp); err == nil {
			for _, rt := range c06routes {
				old.do(simReq{method: rt.verb(), path: rt.path, remote: "10.9.0.1:1", headers: [][2]string{{"Authorization", "Bearer earlier-secret-1"}, {"X-API-Key", "earlier-key-1"}}})
			}
		}
		os.Setenv(envJWTSecret, jwt)
		os.Setenv(envAPIKeys, keys)
	}
	sv, err := simBuildServer(module(func(rt c06route) string { return rt.kind }), interp)
	if err != nil {
		s.InfraFail("C06: cannot build server: " + err.Error())
	}
	y.do = func(r *c06req) {
		resp := sv.do(simReq{method: r.route.verb(), path: r.route.path, remote: c06peer(y.v6, r.client, 30000+int(r.call%20000)), headers: r.hdr})
		r.status, r.body = resp.status, resp.body
	}
	return y
}

func c06Run(s *sim.Sim, p *sim.Params) {
	s.SetLimits(1_000_000, 0)
	if s.Choose(sim.SWork, 10) == 0 {
		c06ApiKeys(s, p)
		return
	}
	y := c06build(s, p)
	defer os.Unsetenv(envJWTSecret)
	defer os.Unsetenv(envAPIKeys)
	nclients := 1 + s.Choose(sim.SWork, 6)
	var hist []*c06req
	var sample []string
	sample = append(sample, fmt.Sprintf("direct=%v jwtConfigured=%v apiKeys=%d cfg={max=%d lock=%v maxlock=%v reset=%v} clients=%d", y.direct, y.jwtSecret != "", len(y.apiKeys), y.cfg.MaxFailures, y.cfg.LockoutDuration, y.cfg.MaxLockout, y.cfg.ResetAfter, nclients))
	defer func() {
		if len(sample) > 70 {
			sample = append(sample[:70], fmt.Sprintf("... %d more", len(sample)-70))
		}
		s.Note("sample", sample)
	}()
	gaps := []time.Duration{0, 0, time.Millisecond, y.cfg.LockoutDuration - time.Millisecond, y.cfg.LockoutDuration + time.Millisecond, 2*y.cfg.LockoutDuration + time.Millisecond,
		y.cfg.MaxLockout + 2*time.Millisecond, y.cfg.ResetAfter - time.Millisecond, y.cfg.ResetAfter + time.Millisecond, -1 /* align to the next cleanup tick */, 4 * time.Minute}
	routes := c06routes
	if y.direct {
		routes = []c06route{{"/jwt", "jwt", "jwt-ran-22", ""}}
	}
	type step struct {
		gap time.Duration
		n   int
		par bool
	}
	issue := func(ci int) {
		r := &c06req{client: ci, route: routes[s.Choose(sim.SWork, len(routes))]}
		c06shape(s, y, r.route, r)
		r.at = s.Now()
		r.call = s.Stamp()
		hist = append(hist, r)
		y.do(r)
		r.ret = s.Stamp()
	}
	// "table pressure" runs: more distinct clients than the failure table is meant to hold send one
	// bad request each before the workload starts (nobody comes near a lockout), so the clients of
	// the workload meet a table at capacity
	if s.Choose(sim.SWork, 25) == 0 {
		s.Probe("failure-table-pressure-run")
		var jwtRoute c06route
		for _, rt := range routes {
			if rt.kind == "jwt" {
				jwtRoute = rt
			}
		}
		for k := 0; k < 10050; k++ {
			r := &c06req{client: 1000 + k, route: jwtRoute, shape: "wrong-credential", badCred: true}
			r.hdr = [][2]string{{"Authorization", fmt.Sprintf("Bearer nope-%d", k)}}
			r.at = s.Now()
			r.call = s.Stamp()
			y.do(r)
			r.ret = s.Stamp()
			if k%500 == 0 {
				hist = append(hist, r) // a sample of them is judged like any other request
			}
		}
	}
	var hs []*sim.Handle
	if len(y.creds("jwt")) > 0 && s.Choose(sim.SWork, 6) == 0 {
		// a persistent attacker: wrong credentials again and again, each time as soon as the
		// previous lockout can have ended, until the lockout has grown as long as it may get;
		// then the same client waits out the longest lockout there is and presents the valid
		// credential
		s.Probe("persistent-attacker-run")
		var jwtRoute c06route
		for _, rt := range routes {
			if rt.kind == "jwt" {
				jwtRoute = rt
			}
		}
		ci := nclients + 7
		send := func(shape, token string, valid bool) *c06req {
			r := &c06req{client: ci, route: jwtRoute, shape: shape, canonical: valid, carries: valid, badCred: !valid}
			r.hdr = [][2]string{{"Authorization", "Bearer " + token}}
			r.at = s.Now()
			r.call = s.Stamp()
			hist = append(hist, r)
			y.do(r)
			r.ret = s.Stamp()
			return r
		}
		rounds := 6 + s.Choose(sim.SWork, 5)
		hs = append(hs, s.Spawn("attacker", func() {
			for k := 0; k < y.cfg.MaxFailures; k++ {
				send("wrong-credential", fmt.Sprintf("guess-%d", k), false)
			}
			wait := y.cfg.LockoutDuration
			for i := 0; i < rounds; i++ {
				if wait > y.cfg.MaxLockout {
					wait = y.cfg.MaxLockout
				}
				s.Sleep(wait + 2*time.Millisecond)
				send("wrong-credential", fmt.Sprintf("guess-again-%d", i), false)
				wait *= 2
			}
			s.Sleep(y.cfg.MaxLockout + 2*time.Millisecond)
			send("canonical", y.creds("jwt")[0], true)
		}))
	}
	for ci := 0; ci < nclients; ci++ {
		nsteps := 2 + s.Choose(sim.SWork, 10)
		steps := make([]step, nsteps)
		for i := range steps {
			steps[i] = step{gap: gaps[s.Choose(sim.SWork, len(gaps))], n: 1 + s.Choose(sim.SWork, 3), par: s.Choose(sim.SWork, 3) == 0}
		}
		ci := ci
		hs = append(hs, s.Spawn(fmt.Sprintf("client#%d", ci), func() {
			for _, st := range steps {
				switch {
				case st.gap < 0:
					now := s.Now()
					next := (now/time.Minute + 1) * time.Minute
					s.Sleep(next - now)
					s.Fault("request-at-cleanup-tick")
				case st.gap > 0:
					s.Sleep(st.gap)
				}
				if st.par && st.n > 1 {
					var sub []*sim.Handle
					for k := 0; k < st.n; k++ {
						sub = append(sub, s.Spawn(fmt.Sprintf("req#%d", ci), func() { issue(ci) }))
					}
					s.Wait(sub...)
				} else {
					for k := 0; k < st.n; k++ {
						issue(ci)
					}
				}
			}
		}))
	}
	if !s.WaitTimeout(200*time.Hour, hs...) {
		s.Fail("deadlock", s.BlockedSitesOf(hs...), "requests did not complete: "+s.BlockedSummary())
	}
	c06check(s, y, hist, &sample)
}

func c06check(s *sim.Sim, y *c06sys, hist []*c06req, sample *[]string) {
	guard := time.Millisecond
	for _, r := range hist {
		*sample = append(*sample, fmt.Sprintf("t=%v c%d [%d,%d] %s %s -> %d ran=%v", r.at, r.client, r.call, r.ret, r.route.path, r.shape, r.status, strings.Contains(r.body, r.route.marker)))
	}
	for _, r := range hist {
		ran := strings.Contains(r.body, r.route.marker)
		// no response may carry another route's marker
		for _, o := range c06routes {
			if o.marker != r.route.marker && strings.Contains(r.body, o.marker) {
				s.Fail("oracle", "wrong-route-body", fmt.Sprintf("%s %s answered with the body of %s %s", r.route.verb(), r.route.path, o.verb(), o.path))
			}
		}
		switch r.status {
		case 200, 401, 403, 429:
		default:
			s.Fail("oracle", "unexpected-status", fmt.Sprintf("%s (%s) answered %d: %s", r.route.path, r.shape, r.status, r.body))
		}
		if r.route.kind == "open" {
			// (ii) routes without auth are unaffected
			if r.status != 200 || !ran {
				s.Fail("oracle", "open-route-affected", fmt.Sprintf("route without auth answered %d ran=%v for a %s request", r.status, ran, r.shape))
			}
			continue
		}
		configured := len(y.creds(r.route.kind)) > 0
		if y.declaredTwice {
			// (the path is also declared without auth: which declaration answers is the router's
			// business; the body behind auth stays behind auth)
			if ran && (!r.carries || !configured) {
				s.Fail("oracle", "fail-closed:"+r.route.kind+":declared-twice", fmt.Sprintf("request %q to %s carries no configured credential; the path is declared twice (first without auth, with another body) and the answer %d carries the body of the declaration behind auth", r.shape, r.route.path, r.status))
			}
			continue
		}
		// (i) fail closed
		if !r.carries || !configured {
			if ran || r.status == 200 {
				why := "carries no configured credential"
				if !configured {
					why = "no credential source is configured for auth(" + r.route.kind + ")"
				}
				s.Fail("oracle", "fail-closed:"+r.route.kind, fmt.Sprintf("request %q to %s %s but got %d ran=%v", r.shape, r.route.path, why, r.status, ran))
			}
			continue
		}
		if r.status == 200 && !ran {
			s.Fail("oracle", "accepted-without-body", fmt.Sprintf("%s answered 200 without its marker", r.route.path))
		}
		if !r.canonical {
			continue // carries the credential in a non-canonical place: either outcome is allowed
		}
		if r.route.kind == "apikey" {
			if r.status != 200 {
				s.Fail("oracle", "valid-rejected:apikey", fmt.Sprintf("canonical API key rejected with %d", r.status))
			}
			continue
		}
		// (iii)/(iv) valid bearer credential: must pass whenever a lockout is impossible.
		// The failure count is replayed conservatively from the documented configuration
		// (MaxFailures, ResetAfter, MaxLockout): every bad-credential request counts as a failure
		// (even one the implementation rejected early), the count restarts after a success that no
		// failed attempt overlaps and after more than ResetAfter without a failure, and reaching
		// MaxFailures may lock the client for at most MaxLockout. How long a lockout actually lasts
		// in between (the doubling arithmetic) is deliberately not mirrored.
		fails, streak := 0, 0
		var lastFailAt time.Duration = -1
		var lockPossibleUntil time.Duration = -1
		for _, o := range hist {
			if o == r || o.client != r.client || o.route.marker != r.route.marker || o.call > r.ret {
				continue
			}
			if o.badCred {
				if streak > 0 && o.at-lastFailAt > y.cfg.ResetAfter+guard {
					streak = 0
				}
				streak++
				fails++
				lastFailAt = o.at
				if streak >= y.cfg.MaxFailures {
					if u := o.at + y.cfg.MaxLockout; u > lockPossibleUntil {
						lockPossibleUntil = u
					}
				}
				continue
			}
			if o.status == 200 && o.ret < r.call {
				// only a success that no failed attempt overlaps is a clean reset point: a failure in
				// flight together with it may have set a lockout that the success does not clear
				clean := true
				for _, b := range hist {
					if b.client == o.client && b.route.marker == o.route.marker && b.badCred && b.call <= o.ret && b.ret >= o.call {
						clean = false
						break
					}
				}
				if clean {
					streak = 0
				}
			}
		}
		impossible := lockPossibleUntil < 0 || r.at > lockPossibleUntil+guard
		if fails == 0 {
			s.Probe("valid-from-clean-client")
		}
		if lockPossibleUntil >= 0 {
			s.Probe("lockout-threshold-crossed")
			if r.status == 200 {
				s.Probe("accepted-after-lockout-expired")
			}
		}
		if fails >= y.cfg.MaxFailures && lockPossibleUntil < 0 {
			s.Probe("failures-aged-out-before-threshold")
		}
		if impossible && r.status != 200 {
			site := "valid-rejected:jwt"
			if fails == 0 {
				site = "clean-client-locked-out"
			}
			s.Fail("oracle", site, fmt.Sprintf("client %d sent the canonical valid credential at %v and got %d although a lockout is impossible (%d failed attempts in all, current streak %d, MaxFailures=%d, ResetAfter=%v, last failure at %v, a lockout could last until %v at most, MaxLockout=%v)", r.client, r.at, r.status, fails, streak, y.cfg.MaxFailures, y.cfg.ResetAfter, lastFailAt, lockPossibleUntil, y.cfg.MaxLockout))
		}
	}
}
