#!/bin/sh
# builds the framework from files on disk only (offline)
set -e
cd "$(dirname "$0")"
exec ./build.sh
