# sourced by build.sh / setup.sh; vcheck sets the same variables itself
export GOROOT125=/root/go/pkg/mod/golang.org/toolchain@v0.0.1-go1.25.0.linux-amd64
export PATH="$GOROOT125/bin:$PATH"
export GOFLAGS=-mod=mod GOPROXY=off GOSUMDB=off GOTOOLCHAIN=local CGO_ENABLED=0
